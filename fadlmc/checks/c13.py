"""C13 - Python values embedded in a query keep their exact value."""
import ast
import itertools
import linecache
import math
from typing import Iterable

from ..core import Check, Space

ALPHA = ["a", "'", '"', "\\", "\n", "(", ")", "+", " ", "é", "{", "#", ",", "x"]
LEGAL_CONST = (str, int, float, bool, complex, bytes)


def strings(maxlen):
    out = [""]
    for n in range(1, maxlen + 1):
        out += ["".join(t) for t in itertools.product(ALPHA, repeat=n)]
    return out


CODELIKE = ["1", "1+1", "None", "True", "__import__('os')", "lambda x: x", "a.b", "f(x)", "[1, 2]", "{'a': 1}",
            "x y", "'''", "\\n", "\\", "a'+'b", "\t", "\r", "\x00", "éπ\U0001F600", "#comment", "a\\'b",
            "\\x41", "%s", "{0}", "f'{x}'", " "]

SCALARS = [0, 1, -1, 2 ** 64 + 1, -(2 ** 70), 0.0, -0.0, 1.5, -2.5, 1e300, 1e-7, 1e16, True, False, None, b"ab", b"",
           b"\x00'\\"]


def same(a, b):
    "equal value AND same type, recursively (sign of zero included)"
    if type(a) is not type(b):
        return False
    if isinstance(a, float):
        return a == b and math.copysign(1, a) == math.copysign(1, b)
    if isinstance(a, (list, tuple)):
        return len(a) == len(b) and all(same(x, y) for x, y in zip(a, b))
    if isinstance(a, dict):
        return list(a.keys()) == list(b.keys()) and all(same(a[k], b[k]) for k in a) and \
            all(same(x, y) for x, y in zip(a.keys(), b.keys()))
    return a == b


LITERAL_NODES = (ast.Constant, ast.List, ast.Tuple, ast.Dict, ast.Load, ast.UnaryOp, ast.USub, ast.UAdd,
                 ast.BinOp, ast.Add, ast.Sub, ast.Set)


def literal_value(node):
    "('ok', value) if the node is a pure literal, else ('bad', why)"
    for n in ast.walk(node):
        if not isinstance(n, LITERAL_NODES):
            return ("bad", f"non-literal node {type(n).__name__}")
    try:
        return ("ok", ast.literal_eval(node))
    except Exception as e:
        return ("bad", f"literal_eval: {type(e).__name__}: {e}")


_N = [0]
_NAMED = {}


class C13(Check):
    pid = "C13"
    title = "Python values embedded in a query keep their exact value"
    rule = ("every string of length <= L over the 14-character alphabet {a ' \" \\\\ newline ( ) + space é { # , x} "
            "plus 26 code-like / control / unicode strings, the scalar set (ints beyond 2^64, -0.0, 1e300, 1e-7, bool, "
            "None, bytes) and list/tuple/dict nestings of these, is embedded through EVERY entry point that accepts "
            "it (MetaData value and key, AsPandasDF / AsAwkwardArray / AsROOTTTree / AsParquetFiles column names as "
            "str, as list and as tuple, tree and file names, declared default of a typed method parameter, captured closure "
            "variable, captured global); the literal node found at that position must consist of literal node "
            "kinds only and ast.literal_eval of it must give an equal value of the same type recursively; every "
            "Constant inside an emitted lambda must have a transportable scalar type unless the call raised "
            "ValueError. Non-trivial = distinct (entry point, value)")
    assumptions = [
        "None inside a lambda: the statement lists it as embeddable, the constant gate refuses it; both a "
        "faithful None constant and a ValueError are accepted",
        "a refusal (ValueError) at a non-lambda entry point is NOT accepted for the listed value types",
    ]

    def spaces(self, tier):
        Q = tier == "quick"
        L = 3 if Q else 4
        vals = (lambda: [("s", s) for s in strings(L) + CODELIKE])
        return [
            Space(f"strings<={L}", {"alphabet": ALPHA, "maxlen": L, "extra": len(CODELIKE)}, vals, runner="run_str"),
            Space("scalars+nests", {"scalars": len(SCALARS), "nesting": "list/tuple/dict to depth 2"},
                  (lambda: list(range(len(_nested())))), runner="run_nest"),
            Space("callback-metadata", {"pairs": "every ordered pair of values that are equal but of different type (True/1/1.0, False/0/0.0/-0.0, "
                                                 "(1, 2)/(1, 2.0), 'a'/b'a' is unequal and serves as control)",
                                        "where": "the earlier dictionary put on by the user / on a derived stream; the callback at the top of the lambda / in a nested lambda"},
                  (lambda: [(a, b, w) for grp in ([True, 1, 1.0], [False, 0, 0.0, -0.0], [(1, 2), (1, 2.0)], ["a", b"a"]) for a in grp for b in grp
                            if not same(a, b) for w in ("user:top", "user:nested", "derived:top", "derived:nested")]), runner="run_cbmd"),
        ]

    # ------------------------------------------------------------------ metadata attached by callbacks
    def run_cbmd(self, payload):
        """A callback attaches MetaData({'k': b}) - at the top of the lambda or inside a nested lambda - on a stream that
        already carries MetaData({'k': a}) with a == b but type(a) != type(b): the emitted query must hold a literal that
        evaluates back to {'k': b} with b's type."""
        from typing import Iterable

        from func_adl import EventDataset, func_adl_callback

        a, b, where = payload
        canon = f"callback-metadata|{a!r}|{b!r}|{where}"
        res = {"n": 1, "nt": [canon], "oc": [], "tags": {}, "viol": []}

        def cb(s, call):
            return s.MetaData({"k": b, "who": "callback"}), call

        class Jet:
            @func_adl_callback(cb)
            def pt(self) -> float: ...

        class Ev:
            @func_adl_callback(cb)
            def met(self) -> float: ...

            def jets(self) -> Iterable[Jet]: ...

        class DS(EventDataset):
            async def execute_result_async(self, q, title=None):
                return q

        base = DS(Ev).MetaData({"k": a, "who": "callback"}) if where.startswith("user") else DS(Ev).Select("lambda e: e").MetaData({"k": a, "who": "callback"})
        lam = "lambda e: e.jets().Select(lambda j: j.pt())" if where.endswith("nested") else "lambda e: e.met()"
        try:
            st = base.Select(lam)
        except Exception as e:
            res["viol"].append({"kind": f"callback-metadata:raised:{type(e).__name__}", "canon": canon, "msg": str(e)[:120]})
            return res
        found = []
        for n in ast.walk(st.query_ast):
            if isinstance(n, ast.Call) and isinstance(n.func, ast.Name) and n.func.id == "MetaData":
                stv = literal_value(n.args[1])
                if stv[0] == "ok":
                    found.append(stv[1])
        ok_b = any(same(d, {"k": b, "who": "callback"}) for d in found)
        ok_a = any(same(d, {"k": a, "who": "callback"}) for d in found)
        if not (ok_a and ok_b):
            res["oc"].append("lost")
            res["viol"].append({"kind": "callback-metadata:dictionary-missing-or-altered", "canon": canon,
                                "msg": f"wanted both {{'k': {a!r}}} and {{'k': {b!r}}} (same types), found {found}"})
        else:
            res["oc"].append("faithful")
        return res

    # ------------------------------------------------------------------ entry points
    def _entry_points(self, v):
        """yield (entry name, thunk -> literal node, value expected) for value v"""
        from func_adl import EventDataset

        class DS(EventDataset):
            async def execute_result_async(self, a, title=None):
                return a

        ds = DS()
        is_str = isinstance(v, str)
        yield "MetaData.value", (lambda: ds.MetaData({"k": v}).query_ast.args[1]), {"k": v}
        if is_str:
            yield "MetaData.key", (lambda: ds.MetaData({v: 1}).query_ast.args[1]), {v: 1}
            yield "AsPandasDF.str", (lambda: ds.AsPandasDF(v).query_ast.args[1]), [v]
            yield "AsPandasDF.list", (lambda: ds.AsPandasDF([v, "b"]).query_ast.args[1]), [v, "b"]
            yield "AsAwkwardArray.str", (lambda: ds.AsAwkwardArray(v).query_ast.args[1]), [v]
            yield "AsAwkwardArray.list", (lambda: ds.AsAwkwardArray(["a", v]).query_ast.args[1]), ["a", v]
            yield "AsROOTTTree.columns", (lambda: ds.AsROOTTTree("f", "t", [v]).query_ast.args[1]), [v]
            yield "AsROOTTTree.treename", (lambda: ds.AsROOTTTree("f", v, "c").query_ast.args[2]), v
            yield "AsROOTTTree.filename", (lambda: ds.AsROOTTTree(v, "t", "c").query_ast.args[3]), v
            yield "AsParquetFiles.filename", (lambda: ds.AsParquetFiles(v, "c").query_ast.args[2]), v
            yield "AsParquetFiles.columns", (lambda: ds.AsParquetFiles("f", v).query_ast.args[1]), [v]
        if is_str:
            # column names handed over as a TUPLE of strings
            yield "AsPandasDF.tuple", (lambda: ds.AsPandasDF((v, "b")).query_ast.args[1]), (v, "b")
            yield "AsAwkwardArray.tuple1", (lambda: ds.AsAwkwardArray((v,)).query_ast.args[1]), (v,)
            yield "AsROOTTTree.columns.tuple", (lambda: ds.AsROOTTTree("f", "t", ("a", v)).query_ast.args[1]), ("a", v)
            yield "AsParquetFiles.columns.tuple", (lambda: ds.AsParquetFiles("f", (v, v)).query_ast.args[1]), (v, v)
            yield "MetaData.value.tuple", (lambda: ds.MetaData({"k": (v, "b")}).query_ast.args[1]), {"k": (v, "b")}
        if isinstance(v, tuple) and all(isinstance(x, str) for x in v):
            yield "AsAwkwardArray.tuple*", (lambda: ds.AsAwkwardArray(v).query_ast.args[1]), v
            yield "AsROOTTTree.columns.tuple*", (lambda: ds.AsROOTTTree("f", "t", v).query_ast.args[1]), v
        if isinstance(v, list) and all(isinstance(x, str) for x in v):
            yield "AsAwkwardArray.list*", (lambda: ds.AsAwkwardArray(v).query_ast.args[1]), v

    def _lambda_points(self, v):
        """entry points inside lambdas: (name, thunk -> (lambda ast, constant node or None))"""
        from func_adl import EventDataset

        class DS(EventDataset):
            async def execute_result_async(self, a, title=None):
                return a

        # declared default of a typed method parameter
        if True:
            _N[0] += 1
            src = (f"from typing import Iterable\nclass Ev:\n    def m(self, p: int = {v!r}) -> float: ...\n")
            for modname in ("model_module", "func_adl_xaod_model"):
                g = {"__name__": modname}
                exec(src, g)

                def typed(Ev=g["Ev"]):
                    s = DS(Ev).Select("lambda e: e.m()")
                    lam = s.query_ast.args[1]
                    call = lam.body
                    return lam, (call.args[0] if isinstance(call, ast.Call) and call.args else None)
                yield "typed-default" + ("" if modname == "model_module" else ":module-named-func_adl_*"), typed
            # defaulted positional parameters followed by keyword-only ones: every default belongs to ITS parameter
            src2 = (f"class Ev:\n    def m(self, a: int = 11, p: int = {v!r}, *, flag: bool = True, tag: str = 'x') -> float: ...\n")
            g2 = {"__name__": "model_module"}
            exec(src2, g2)

            def typed_kwonly(Ev=g2["Ev"]):
                s = DS(Ev).Select("lambda e: e.m(12)")
                lam = s.query_ast.args[1]
                call = lam.body
                if not (isinstance(call, ast.Call) and len(call.args) == 4 and not call.keywords):
                    raise RuntimeError(f"typed-default:kwonly: not in full positional form: {ast.unparse(lam)}")
                rest = [literal_value(call.args[i]) for i in (0, 2, 3)]
                if rest != [("ok", 12), ("ok", True), ("ok", "x")]:
                    raise RuntimeError(f"typed-default:kwonly: neighbours of the default are wrong: {ast.unparse(lam)}")
                return lam, call.args[1]
            yield "typed-default:before-keyword-only", typed_kwonly
        # captured closure variable / global
        fn = f"<c13mod{_N[0]}>"
        _N[0] += 1
        text = ("def build(ds, v):\n    return ds.Select(\n        lambda e: e.f(v)\n    )\n"
                "G = None\ndef build_g(ds):\n    return ds.Select(\n        lambda e: e.f(G)\n    )\n"
                "def build_nested(ds, v):\n    return ds.Select(\n        lambda e: e.jets.Select(lambda j: j.f(v))\n    )\n"
                "def build_nested2(ds, v):\n    return ds.Select(\n        lambda e: e.jets.Select(lambda j: j.tr.Where(lambda t: t.f(v) > 1))\n    )\n"
                "def build_comp(ds, v):\n    return ds.Select(\n        lambda e: [j.f(v) for j in e.jets if j.pt > 1]\n    )\n"
                "H = None\ndef build_h(ds):\n    return ds.Select(\n        lambda e: e.f(H.V)\n    )\n"
                "def build_other(ds, v):\n    return ds.Select(\n        lambda e: e.jets.OrderBy(lambda j: j.f(v))\n    )\n")
        linecache.cache[fn] = (len(text), None, text.splitlines(True), fn)
        g = {}
        exec(compile(text, fn, "exec"), g)

        def closure():
            lam = g["build"](DS(), v).query_ast.args[1]
            return lam, lam.body.args[0]

        def glob():
            g["G"] = v
            lam = g["build_g"](DS()).query_ast.args[1]
            return lam, lam.body.args[0]
        yield "captured-closure", closure
        yield "captured-global", glob

        # the value held as a class constant / an instance attribute / a module attribute and reached through that holder
        def held(kind):
            def run():
                import types as _types

                holder = {"class": type("Cfg", (), {"V": v}), "instance": type("Cfg", (), {"__init__": lambda self: setattr(self, "V", v)})(),
                          "module": _types.ModuleType("cfgmod")}[kind]
                if kind == "module":
                    holder.V = v
                g["H"] = holder
                lam = g["build_h"](DS()).query_ast.args[1]
                return lam, lam.body.args[0]
            return run
        for kind in ("class", "instance", "module"):
            yield f"captured-attribute:{kind}", held(kind)

        def deeper(which):
            def run():
                lam = g[which](DS(), v).query_ast.args[1]
                calls = [n for n in ast.walk(lam) if isinstance(n, ast.Call) and isinstance(n.func, ast.Attribute) and n.func.attr == "f"]
                return lam, (calls[0].args[0] if calls and calls[0].args else None)
            return run
        # the captured value below the top of the lambda: nested operator lambdas, a comprehension, a method the library does not know
        yield "captured-closure:nested-lambda", deeper("build_nested")
        yield "captured-closure:nested-lambda-depth2", deeper("build_nested2")
        yield "captured-closure:comprehension", deeper("build_comp")
        yield "captured-closure:lambda-argument-of-unknown-method", deeper("build_other")

        def named():
            if "mod" not in _NAMED:
                fn2 = "<c13named>"
                text2 = "G = None\ndef by_name(e): return e.f(G)\ndef build(ds):\n    return ds.Select(by_name)\n"
                linecache.cache[fn2] = (len(text2), None, text2.splitlines(True), fn2)
                g2 = {}
                exec(compile(text2, fn2, "exec"), g2)
                _NAMED["mod"] = g2
            g2 = _NAMED["mod"]
            g2["G"] = v
            lam = g2["build"](DS()).query_ast.args[1]
            return lam, lam.body.args[0]
        yield "captured-global:same-function-object", named

    def _check_value(self, v, res, tag):
        for name, thunk, want in self._entry_points(v):
            canon = f"{name}|{v!r}"
            res["n"] += 1
            res["nt"].append(canon)
            try:
                node = thunk()
            except Exception as e:
                res["oc"].append("raised")
                res["viol"].append({"kind": f"{name}:raised:{type(e).__name__}", "canon": canon, "msg": str(e)[:120]})
                continue
            st, got = literal_value(node)
            if st == "bad":
                res["oc"].append("not-literal")
                res["viol"].append({"kind": f"{name}:not-a-literal", "canon": canon, "msg": f"{got}: {ast.dump(node)[:150]}"})
            elif not same(got, want):
                res["oc"].append("altered")
                res["viol"].append({"kind": f"{name}:value-altered", "canon": canon, "msg": f"{got!r} != {want!r}"})
            else:
                res["oc"].append("faithful")
        for name, thunk in self._lambda_points(v):
            canon = f"{name}|{v!r}"
            res["n"] += 1
            res["nt"].append(canon)
            try:
                lam, node = thunk()
            except ValueError:
                # refusal: accepted only if the value is not a transportable scalar (or None, both ways)
                if isinstance(v, LEGAL_CONST) and not isinstance(v, (list, tuple, dict)):
                    res["oc"].append("refused-legal")
                    res["viol"].append({"kind": f"{name}:refused-transportable-value", "canon": canon, "msg": ""})
                else:
                    res["oc"].append("refused")
                continue
            except Exception as e:
                res["oc"].append("raised")
                res["viol"].append({"kind": f"{name}:raised:{type(e).__name__}", "canon": canon, "msg": str(e)[:120]})
                continue
            bad = [n for n in ast.walk(lam) if isinstance(n, ast.Constant) and not isinstance(n.value, LEGAL_CONST)]
            if bad and not (v is None and all(b.value is None for b in bad)):
                res["oc"].append("illegal-constant")
                res["viol"].append({"kind": f"{name}:non-transportable-constant-emitted", "canon": canon,
                                    "msg": ast.dump(bad[0])[:120]})
                continue
            if node is None:
                res["viol"].append({"kind": f"{name}:no-literal-found", "canon": canon, "msg": ast.dump(lam)[:150]})
                continue
            st, got = literal_value(node)
            if st == "bad" or not same(got, v):
                res["oc"].append("altered")
                res["viol"].append({"kind": f"{name}:value-altered", "canon": canon,
                                    "msg": f"{got!r} != {v!r}: {ast.dump(node)[:100]}"})
            else:
                res["oc"].append("faithful")

    def run_str(self, payload):
        res = {"n": 0, "nt": [], "oc": [], "tags": {}, "viol": []}
        self._check_value(payload[1], res, "s")
        res["oc"] = sorted(set(res["oc"]))
        return res

    def run_nest(self, i):
        res = {"n": 0, "nt": [], "oc": [], "tags": {}, "viol": []}
        self._check_value(_nested()[i], res, "n")
        res["oc"] = sorted(set(res["oc"]))
        return res

    def run_menu(self, k):
        res = {"n": 0, "nt": [], "oc": [], "tags": {}, "viol": []}
        self._check_value(PAIR_MENU[k], res, "m")
        res["oc"] = sorted(set(res["oc"]))
        return res

    def pair_menu(self, tier):
        return [("pairmenu", "run_menu", k) for k in range(len(PAIR_MENU))]

    def render(self, space_name, payload):
        if space_name == "pairmenu":
            return repr(PAIR_MENU[payload])
        return repr(payload if not isinstance(payload, int) else _nested()[payload])


# values that are equal (==, same hash) but of different type or sign, embedded one after the other
PAIR_MENU = [0, 0.0, -0.0, False, 1, 1.0, True, 2, 2.0, "a", b"a", "1", None, 10 ** 16, 1e16, "", b""]
_NEST = []


def _nested():
    if not _NEST:
        base = SCALARS + ["a'b", 'q"', "\\", "\n", ""]
        out = list(base)
        for x in base:
            out += [[x], (x,), {"k": x}]
            if isinstance(x, str):
                out += [{x: 1}]
        pairs = [("a'b", -0.0), (None, b"x"), (2 ** 64 + 1, "\n"), (True, 1)]
        for a, b in pairs:
            out += [[a, b], (a, b), {"p": a, "q": b}, [[a], (b,)], {"d": {"e": a}, "l": [b, (a,)]}, ([a, {"z": b}],)]
        out += [[], (), {}, ["x", "y"], ["a'", 'b"', "c\\"], ("x", "y"), ("a'",)]
        _NEST.extend(out)
    return _NEST


CHECK = C13()
