"""C20 - the query hash identifies structure and nothing else."""
import ast
import copy
import json
import linecache
import os
import subprocess
import sys

from .. import bind, qspaces
from ..core import Check, Space, h64


def skey(n):
    "independent structural serialisation: node types, field names, leaf values with their types"
    if isinstance(n, ast.AST):
        return "(" + type(n).__name__ + "".join(
            f" {f}={skey(getattr(n, f))}" for f in n._fields if hasattr(n, f)) + ")"
    if isinstance(n, list):
        return "[" + ",".join(skey(x) for x in n) + "]"
    return f"<{type(n).__name__}:{n!r}>"


def _hash(a):
    from func_adl.ast.ast_hash import calc_ast_hash

    return calc_ast_hash(a)


def reformat_variants(src):
    "same structure, different spelling: whitespace, line breaks, line offset, comments, parentheses"
    v = [src,
         "\n\n\n" + src,
         "(\n  " + src.replace(", ", " ,\n   ").replace("(", "( ").replace(")", " )") + "  # trailing comment\n)",
         "  \t" + src.replace(" + ", "+").replace(": ", ":   "),
         "((" + src + "))"]
    return v


def edits(q):
    """single-edit neighbours, applied IN PLACE and undone: yields (description, undo)"""
    nodes = list(ast.walk(q))
    parents = {}
    for p in nodes:
        for f, v in ast.iter_fields(p):
            if isinstance(v, list):
                for k, x in enumerate(v):
                    if isinstance(x, ast.AST):
                        parents[id(x)] = (p, f, k)
            elif isinstance(v, ast.AST):
                parents[id(v)] = (p, f, None)
    for i, n in enumerate(nodes):
        if isinstance(n, ast.Name):
            old = n.id
            for new in (old + "x", old + "é", old + "è", old + "π", old.swapcase() if old.swapcase() != old else old + "_"):
                n.id = new
                yield f"name#{i}:{old}->{new}"
            n.id = old
        elif isinstance(n, ast.Attribute):
            old = n.attr
            for new in (old + "x", old + "é", old + "è", old[:-1] or "z"):
                if new == old:
                    continue
                n.attr = new
                yield f"attr#{i}:{old}->{new}"
            n.attr = old
        elif isinstance(n, ast.arg):
            old = n.arg
            n.arg = old + "x"
            yield f"arg#{i}"
            n.arg = old
        elif isinstance(n, ast.Constant):
            old = n.value
            alts = []
            if isinstance(old, bool):
                alts = [not old, int(old), str(old), None]
            elif isinstance(old, int):
                alts = [old + 1, float(old), str(old), bool(old) if old in (0, 1) else -old, None]
                if old > 0 and -old not in alts:
                    alts.append(-old)  # the constant -1 (a captured value) ...
            elif isinstance(old, str):
                alts = [old + "x", old + "é", old + "è", old + "π", old.encode(), old.upper() if old.upper() != old else old + "_"]
            elif isinstance(old, float):
                alts = [old + 0.5, str(old), int(old) if old == int(old) else -old]
            for new in alts:
                n.value = new
                yield f"const#{i}:{old!r}->{new!r}"
            n.value = old
            if isinstance(old, (int, float)) and not isinstance(old, bool) and old > 0 and id(n) in parents:
                # ... and the written form -1 (a negation applied to the constant 1) are different structures
                par, f, k = parents[id(n)]
                neg = ast.UnaryOp(ast.USub(), n)
                if k is None:
                    setattr(par, f, neg)
                else:
                    getattr(par, f)[k] = neg
                yield f"const-negated#{i}:{old!r}"
                if k is None:
                    setattr(par, f, n)
                else:
                    getattr(par, f)[k] = n
        elif isinstance(n, ast.Call):
            if len(n.args) >= 2 and skey(n.args[0]) != skey(n.args[1]):
                n.args[0], n.args[1] = n.args[1], n.args[0]
                yield f"swapargs#{i}"
                n.args[0], n.args[1] = n.args[1], n.args[0]
            if n.args:
                a0 = n.args[0]
                n.args[0] = ast.Tuple([a0], ast.Load())
                yield f"nest-tuple#{i}"
                n.args[0] = ast.UnaryOp(ast.USub(), a0)
                yield f"nest-neg#{i}"
                n.args[0] = ast.Call(ast.Name("MetaData", ast.Load()), [a0, ast.Dict([], [])], [])
                yield f"nest-empty-metadata#{i}"
                n.args[0] = ast.Call(ast.Name("MetaData", ast.Load()), [a0, ast.Dict([ast.Constant("k")], [ast.Constant(1)])], [])
                yield f"nest-metadata#{i}"
                n.args[0] = a0
                n.args.append(copy.deepcopy(a0))
                yield f"extra-arg#{i}"
                n.args.pop()
        if isinstance(n, (ast.Call, ast.Tuple, ast.List)):
            # move the last argument of a call to the front of the next sibling call (and back)
            sibs = n.args if isinstance(n, ast.Call) else n.elts
            for j in range(len(sibs) - 1):
                a, b = sibs[j], sibs[j + 1]
                if isinstance(a, ast.Call) and isinstance(b, ast.Call) and a.args:
                    x = a.args.pop()
                    b.args.insert(0, x)
                    yield f"move-arg#{i}.{j}"
                    b.args.pop(0)
                    a.args.append(x)
                if isinstance(a, ast.Call) and isinstance(b, ast.Call) and b.args:
                    x = b.args.pop(0)
                    a.args.append(x)
                    yield f"move-arg-back#{i}.{j}"
                    a.args.pop()
                    b.args.insert(0, x)
        if isinstance(n, ast.BinOp):
            old = n.op
            n.op = ast.Sub() if isinstance(old, ast.Add) else ast.Add()
            yield f"binop#{i}"
            n.op = old
            if skey(n.left) != skey(n.right):
                n.left, n.right = n.right, n.left
                yield f"swapoperands#{i}"
                n.left, n.right = n.right, n.left
        elif isinstance(n, ast.Compare):
            old = n.ops[0]
            n.ops[0] = ast.GtE() if isinstance(old, ast.Gt) else ast.Gt()
            yield f"cmpop#{i}"
            n.ops[0] = old
        elif isinstance(n, ast.BoolOp):
            old = n.op
            n.op = ast.Or() if isinstance(old, ast.And) else ast.And()
            yield f"boolop#{i}"
            n.op = old
        elif isinstance(n, (ast.Tuple, ast.List)) and len(n.elts) >= 2 and skey(n.elts[0]) != skey(n.elts[1]):
            n.elts[0], n.elts[1] = n.elts[1], n.elts[0]
            yield f"swapelts#{i}"
            n.elts[0], n.elts[1] = n.elts[1], n.elts[0]
        elif isinstance(n, ast.Dict) and n.keys:
            k = n.keys[0]
            if isinstance(k, ast.Constant):
                old = k.value
                k.value = old + "x"
                yield f"dictkey#{i}"
                k.value = old


_MODN = [0]


class C20(Check):
    pid = "C20"
    title = "The query hash identifies structure and nothing else"
    rule = ("Q = every E1 query up to the stated size (plus string/unicode/float constant seeds); for each q: "
            "(a) re-constructions - 5 re-spellings (whitespace, line breaks, line offset, comments, parentheses), "
            "deep copy, non-field annotations attached to every node, hashing twice - must share the hash; "
            "(b) every single-edit neighbour (each name, attribute, parameter, constant value, constant TYPE, "
            "operator, argument order, element order, one level of nesting, one more argument; incl. non-ASCII "
            "and non-Latin-1 spellings), edited in place on the already-hashed tree, must change the hash; "
            "(c) over all of Q, grouping by hash must coincide with grouping by an independent structural "
            "serialisation; (d) the same queries hashed in 3 fresh processes with different PYTHONHASHSEED give "
            "the same values; (e) fluent-API builds from string / ast / callable in differently formatted "
            "generated modules on different dataset instances with QMetaData share the hash; (f) the same fluent query "
            "built four times in one process (captured helpers inlined, inner names renamed) hashes alike every time. "
            "Non-trivial = distinct (query, edit) pairs")
    assumptions = [
        "structure = node types, fields and leaf values with their types (ast attributes lineno etc. and "
        "non-field annotations are not structure); Q holds fully populated nodes as ast.parse produces them",
        "the u'' string prefix is structure by the property's own definition (Constant.kind is a field)",
    ]

    def spaces(self, tier):
        Q = tier == "quick"
        hi = 6 if Q else 7
        return [
            Space(f"full<={hi}", qspaces.describe("full", 1, hi, ("e", "j")),
                  (lambda hi=hi: qspaces.enumerate_sources("full", 1, hi, ("e", "j")) + _seeds()), runner="run_q"),
            Space(f"pkg<={hi + 1}", qspaces.describe("pkg", 3, hi + 1, ("e",)),
                  (lambda hi=hi: qspaces.enumerate_sources("pkg", 3, hi + 1, ("e",))), runner="run_q"),
            Space("fluent", {"generator": "chains K<=2 x 8 bodies x 3 supply modes x 3 layouts"}, _fluent_cases,
                  runner="run_fluent"),
            Space("captured-constants", {"values": "equal-but-differently-typed constants, rebinding between uses of one function object"},
                  list(range(len(CAPTURE_MENU))), runner="run_capture"),
            Space("rebuilds", {"menu": len(REBUILD_MENU), "builds": 4}, (lambda: list(range(len(REBUILD_MENU)))), runner="run_rebuild"),
            Space("deep-chains", {"lengths": [40, 150, 250], "stack": "hashed at the top level, 300 and 600 frames down, and in a thread with "
                                  "a low recursion limit", "oracle": "every hash that IS returned for one structure is the same (a RecursionError is no hash)"},
                  [40, 150, 250], runner="run_deep"),
            Space("processes", {"processes": 3, "PYTHONHASHSEED": "1, 2, random"}, [("proc", 0)], runner="run_proc"),
        ]

    def run_q(self, src):
        res = {"n": 0, "nt": [], "oc": [], "tags": {}, "viol": []}
        q = ast.parse(src, mode="eval").body
        try:
            h = _hash(q)
        except Exception as e:
            res["viol"].append({"kind": f"raised:{type(e).__name__}", "canon": src, "msg": str(e)[:100]})
            return res
        sk = skey(q)
        res["custom"] = (h, h64(sk).hex())
        # (a) re-constructions
        for i, v in enumerate(reformat_variants(src)):
            qv = ast.parse(v.strip() if i != 1 else v, mode="eval").body
            res["n"] += 1
            if skey(qv) != sk:
                raise RuntimeError(f"harness: variant {i} is not structurally equal: {v!r}")
            if _hash(qv) != h:
                res["viol"].append({"kind": "formatting-changes-hash", "canon": f"{src}|fmt{i}", "msg": v})
        qc = copy.deepcopy(q)
        for j, n in enumerate(ast.walk(qc)):
            n._q_metadata = {"k": j}
            n._func_adl_executor = print
            n._eds_object = object()
            n._old_ast = q
        res["n"] += 2
        if _hash(qc) != h:
            res["viol"].append({"kind": "annotation-changes-hash", "canon": src, "msg": ""})
        if _hash(q) != h:
            res["viol"].append({"kind": "unstable", "canon": src, "msg": ""})
        # (a') sharing of node objects is not structure: one object referenced twice vs two equal copies
        try:
            t_shared = ast.Tuple([qc, qc], ast.Load())
            t_copies = ast.Tuple([copy.deepcopy(q), copy.deepcopy(q)], ast.Load())
            res["n"] += 2
            if _hash(t_shared) != _hash(t_copies):
                res["viol"].append({"kind": "node-sharing-changes-hash", "canon": src, "msg": "(q, q) with one object twice vs two copies"})
            inner = [n for n in ast.walk(q) if isinstance(n, ast.Call)]
            if inner:
                c = copy.deepcopy(inner[-1])
                b_shared = ast.BinOp(c, ast.Mult(), c)
                b_copies = ast.BinOp(copy.deepcopy(c), ast.Mult(), copy.deepcopy(c))
                if _hash(b_shared) != _hash(b_copies):
                    res["viol"].append({"kind": "node-sharing-changes-hash", "canon": src, "msg": "c * c with one call object twice vs two copies"})
        except Exception as e:
            res["viol"].append({"kind": f"raised:{type(e).__name__}", "canon": src + "|shared", "msg": str(e)[:100]})
        # (b) single-edit neighbours, edited in place after the tree was hashed
        seen = {h: (sk, "original")}
        for d in edits(q):
            res["n"] += 1
            sk2 = skey(q)
            if sk2 == sk:
                raise RuntimeError(f"harness: edit {d} did not change the structure")
            try:
                h2 = _hash(q)
            except Exception as e:
                res["oc"].append("raised")
                res["viol"].append({"kind": f"raised:{type(e).__name__}", "canon": f"{src}|{d.split(':')[0]}",
                                    "msg": f"{d}: {e}"[:160]})
                continue
            res["nt"].append(f"{src}|{d}")
            kind = d.split("#")[0]
            res["tags"][kind] = res["tags"].get(kind, 0) + 1
            if h2 == h:
                res["oc"].append("collision")
                res["viol"].append({"kind": "edit-keeps-hash:" + kind, "canon": f"{src}|{d}", "msg": d})
            elif h2 in seen and seen[h2][0] != sk2:
                res["oc"].append("collision")
                res["viol"].append({"kind": "neighbours-collide:" + kind, "canon": f"{src}|{d}",
                                    "msg": f"{d} has the hash of {seen[h2][1]}"})
            seen.setdefault(h2, (sk2, d))
        if skey(q) != sk:
            raise RuntimeError("harness: edits not undone")
        res["oc"].append("ok" if not res["viol"] else "viol")
        return res

    def run_deep(self, n):
        import sys
        import threading

        res = {"n": 0, "nt": [f"deep|{n}"], "oc": [], "tags": {}, "viol": []}
        src = "ds"
        for i in range(n):
            src = f"{src}.Select(lambda e{i % 3}: e{i % 3}.x{i % 5} + {i})" if i % 2 else f"{src}.Where(lambda e: e.y{i % 7} > {i})"
        old = sys.getrecursionlimit()
        sys.setrecursionlimit(max(old, 5000))
        try:
            q = ast.parse(src, mode="eval").body
        finally:
            sys.setrecursionlimit(old)
        got = []

        def at_depth(d):
            if d > 0:
                return at_depth(d - 1)
            try:
                return ("hash", _hash(q))
            except RecursionError:
                return ("recursion-error",)

        for d in (0, 300, 600):
            try:
                got.append((f"depth{d}", at_depth(d)))
            except RecursionError:
                got.append((f"depth{d}", ("recursion-error",)))
            res["n"] += 1

        def in_thread():
            lim = sys.getrecursionlimit()
            sys.setrecursionlimit(400)
            try:
                got.append(("thread-limit400", at_depth(0)))
            except RecursionError:
                got.append(("thread-limit400", ("recursion-error",)))
            finally:
                sys.setrecursionlimit(lim)
        t = threading.Thread(target=in_thread)
        t.start()
        t.join()
        hashes = {g[1][1] for g in got if g[1][0] == "hash"}
        res["oc"].append(f"deep:{len(hashes)}-hashes")
        if len(hashes) > 1:
            res["viol"].append({"kind": "hash-depends-on-stack-depth", "canon": f"deep|{n}", "msg": str(got)[:300]})
        return res

    def finalize(self, agg):
        by_h, by_s = {}, {}
        out = []
        for space, p, (h, s) in agg["custom"]:
            by_h.setdefault(h, set()).add(s)
            by_s.setdefault(s, set()).add(h)
        for space, p, (h, s) in agg["custom"]:
            if len(by_h[h]) > 1:
                out.append({"kind": "hash-collision", "canon": p, "msg": f"hash {h} shared by {len(by_h[h])} structures",
                            "space": space, "payload": p})
            if len(by_s[s]) > 1:
                out.append({"kind": "same-structure-different-hash", "canon": p, "msg": "", "space": space, "payload": p})
        agg["oc"][f"groups:{min(len(by_h), 2)}"] += 1
        return out[:50]

    # ------------------------------------------------------------------ fluent API builds
    def run_fluent(self, case):
        from func_adl import EventDataset

        ops, bodies = case
        res = {"n": 0, "nt": [str(case)], "oc": ["fluent"], "tags": {}, "viol": []}

        class DS(EventDataset):
            async def execute_result_async(self, a, title=None):
                return a

        def build(mode, layout):
            ds = DS()
            if mode == "call":
                # the whole chain is written inline in a generated module, one lambda per line
                _MODN[0] += 1
                fn = f"<c20mod{_MODN[0]}>"
                pad = "\n" * (layout * 3)
                calls = [f".{op}(lambda e: {body})" for op, body in zip(ops, bodies)]
                if layout == 0:
                    text = pad + "def build(ds):\n    s = ds\n" + "".join(f"    s = s{c}\n" for c in calls) + "    return s\n"
                elif layout == 1:
                    text = pad + "def build(ds):\n    return (\n        ds\n" + "".join(
                        f"        {c}  # comment )\n" for c in calls) + "    )\n"
                else:
                    text = pad + "class K:\n    @staticmethod\n    def build(ds):\n        s = ds\n" + "".join(
                        f"        s = s{c.replace('(lambda', '(  lambda').replace(': ', ':  ', 1)}\n" for c in calls) + \
                        "        return s\nbuild = K.build\n"
                linecache.cache[fn] = (len(text), None, text.splitlines(True), fn)
                g = {}
                exec(compile(text, fn, "exec"), g)
                return g["build"](ds).query_ast
            s = ds
            for k, (op, body) in enumerate(zip(ops, bodies)):
                if k == 1 and layout == 2:
                    s = s.QMetaData({"who": layout})
                lam = f"lambda e: {body}"
                if mode == "str":
                    arg = ("  " + lam + "  ") if layout else lam
                else:
                    arg = ast.parse(("\n\n" if layout else "") + lam).body[0].value
                s = getattr(s, op)(arg)
            return s.query_ast

        hs = {}
        for mode in ("str", "ast", "call"):
            for layout in (0, 1, 2):
                try:
                    a = build(mode, layout)
                except Exception as e:
                    raise RuntimeError(f"harness: fluent build failed for {case} {mode} {layout}: {e!r}")
                res["n"] += 1
                hs[(mode, layout)] = (_hash(a), skey(a))
        ref = hs[("str", 0)]
        for k, v in hs.items():
            if v[1] != ref[1]:
                res["oc"].append("fluent-structure-differs")  # not a hash question (C10 territory)
                continue
            if v[0] != ref[0]:
                res["viol"].append({"kind": "supply-mode-changes-hash", "canon": f"{case}|{k}", "msg": str(k)})
        return res

    # ------------------------------------------------------------------ captured constants (also as two-query histories)
    def run_capture(self, k):
        from func_adl import EventDataset

        class DS(EventDataset):
            async def execute_result_async(self, a, title=None):
                return a

        res = {"n": 0, "nt": [f"capture|{k}"], "oc": ["capture"], "tags": {}, "viol": []}
        values = CAPTURE_MENU[k]
        _MODN[0] += 1
        fn = f"<c20cap{_MODN[0]}>"
        text = ("V = None\ndef by_name(e): return e.f(V)\ndef named(ds):\n    return ds.Select(by_name)\n"
                "def inline(ds):\n    return ds.Select(\n        lambda e: e.f(V)\n    )\n")
        linecache.cache[fn] = (len(text), None, text.splitlines(True), fn)
        g = {}
        exec(compile(text, fn, "exec"), g)
        for how in ("inline", "named"):
            for v in values:  # the same function object is used again after V was rebound
                g["V"] = v
                a = g[how](DS()).query_ast
                t = DS().Select(f"lambda e: e.f({v!r})").query_ast
                res["n"] += 1
                if skey(a) != skey(t) or _hash(a) != _hash(t):
                    res["viol"].append({"kind": "callable-built-query-hashes-differently-from-its-text-form",
                                        "canon": f"capture|{how}|{values!r}|{v!r}",
                                        "msg": f"{how}: captured {v!r} gave {ast.unparse(a.args[1])} vs text {ast.unparse(t.args[1])}"})
        return res

    def pair_menu(self, tier):
        return [("capture", "run_capture", k) for k in range(len(CAPTURE_MENU))] + \
               [("rebuild", "run_rebuild", k) for k in range(len(REBUILD_MENU))]

    # ------------------------------------------------------------------ the same query built again and again
    def run_rebuild(self, k):
        """one process builds the same fluent query several times (helpers inlined, inner names renamed for capture
        avoidance, fresh arg_N names in between): every build must hash alike"""
        from func_adl import EventDataset
        from func_adl.ast.function_simplifier import simplify_chained_calls

        class DS(EventDataset):
            async def execute_result_async(self, a, title=None):
                return a

        res = {"n": 0, "nt": [f"rebuild|{k}"], "oc": ["rebuild"], "tags": {}, "viol": []}
        _MODN[0] += 1
        fn = f"<c20reb{_MODN[0]}>"
        text = REBUILD_MENU[k]
        linecache.cache[fn] = (len(text), None, text.splitlines(True), fn)
        g = {}
        try:
            exec(compile(text, fn, "exec"), g)
            hs = []
            for i in range(4):
                q = g["build"](DS()).query_ast
                hs.append((_hash(q), ast.unparse(q)))
                res["n"] += 1
                if i == 1:
                    simplify_chained_calls().visit(copy.deepcopy(q))  # unrelated work in between
        finally:
            linecache.cache.pop(fn, None)
        if len({h for h, _ in hs}) != 1:
            res["viol"].append({"kind": "rebuilding-the-same-query-changes-its-hash", "canon": f"rebuild|{k}",
                                "msg": " ; ".join(sorted({u for _, u in hs}))[:300]})
        return res

    # ------------------------------------------------------------------ separate processes
    def run_proc(self, _):
        res = {"n": 0, "nt": [], "oc": ["proc"], "tags": {}, "viol": []}
        srcs = qspaces.enumerate_sources("full", 1, 5, ("e", "j"))[:400] + _seeds()
        mine = [_hash(ast.parse(s, mode="eval").body) for s in srcs]
        code = ("import sys, json, ast; sys.path.insert(0, %r); from func_adl.ast.ast_hash import calc_ast_hash; "
                "srcs = json.load(sys.stdin); print(json.dumps([calc_ast_hash(ast.parse(s, mode='eval').body) for s in srcs]))"
                % bind.REPO)
        for seed in ("1", "2", "random"):
            env = dict(os.environ, PYTHONHASHSEED=seed)
            pr = subprocess.run([sys.executable, "-c", code], input=json.dumps(srcs), capture_output=True,
                                text=True, env=env)
            if pr.returncode != 0:
                raise RuntimeError("harness: subprocess failed: " + pr.stderr[-300:])
            theirs = json.loads(pr.stdout)
            res["n"] += len(srcs)
            for s, a, b in zip(srcs, mine, theirs):
                if a != b:
                    res["viol"].append({"kind": "process-dependent-hash", "canon": s, "msg": f"seed {seed}"})
                    break
        res["nt"] = [f"proc|{s}" for s in srcs[:50]]
        return res


REBUILD_MENU = [
    # a helper whose inner lambda re-uses the name of the caller's variable (renamed during inlining)
    "def h(x): return x.jets.Select(lambda e: e.pt + x.a)\ndef build(ds):\n    return ds.Select(\n        lambda e: h(e)\n    )\n",
    # a called lambda with the same collision
    "def build(ds):\n    return ds.Select(\n        lambda e: (lambda x: x.jets.Select(lambda e: e.pt + x.a))(e)\n    )\n",
    # a comprehension target spelled like the argument
    "def h(x): return [j.pt + x.a for j in x.jets]\ndef build(ds):\n    return ds.Select(\n        lambda j: h(j)\n    )\n",
    # two helpers, two stages
    "def h(x): return x.jets.Select(lambda e: e.pt)\ndef g(y): return y.Where(lambda e: e > 1).Count()\n"
    "def build(ds):\n    return ds.Select(\n        lambda e: h(e)\n    ).Select(\n        lambda e: g(e)\n    )\n",
    # nothing to rename (control)
    "def build(ds):\n    return ds.Select(\n        lambda e: e.a + 1\n    )\n",
]
CAPTURE_MENU = [(30,), (30.0,), (True,), (1,), (1.0,), ("a",), (10, 20), (2, 2.0), (0, False, 0.0)]


def _seeds():
    return ["Select(ds, lambda e: e.name == 'abc')", "Select(ds, lambda e: e.pt * 2.5)",
            "Select(ds, lambda e: e.Jets('été'))", "Select(ds, lambda e: (e.a, 'x', 1.0, True, None))",
            "ResultTTree(Select(ds, lambda e: e.a), ['col'], 'tree', 'f.root')",
            "Select(ds, lambda e: {'k': e.a, 'l': [e.b, 2]})", "Select(ds, lambda e: e.a if e.b > 1 and not e.c else -e.d)",
            # neighbouring calls whose arguments can move from one to the other (which call owns an argument is structure)
            "Select(ds, lambda e: pair(scale(e.pt, cut), cut(e.eta)))", "f(g(a, h), h(b), h)", "f(g(x, x), x(x), [x, x], (x,))",
            "Select(ds, lambda e: (f(e.a, g), g(e.b, 1)))"] + _slot_seeds()


def _slot_seeds():
    """structures that differ only in WHICH optional slot of one node a child sits in: slice bounds, * / ** parameters,
    positional / keyword-only parameters, the two branches of a conditional, keyword names, chained comparisons"""
    sl = ["1:", ":1", "::1", "1:2", "2:1", ":1:2", "1::2", "1:2:3", ":", "::", "e.n:", ":e.n"]
    out = [f"Select(ds, lambda e: e.jets[{x}])" for x in sl]
    out += [f"Select(ds, lambda e: e.m(lambda {p}: 1))" for p in ("*a", "**a", "a", "a, /", "*, a", "a=1", "*, a=1", "a, *b", "a, **b",
                                                                   "*a, b", "*a, **b", "a, b", "b, a")]
    out += ["Select(ds, lambda e: f(a=e.x, b=e.y))", "Select(ds, lambda e: f(b=e.x, a=e.y))", "Select(ds, lambda e: f(e.x, b=e.y))",
            "Select(ds, lambda e: f(a=e.x, *e.y))", "Select(ds, lambda e: f(*e.x, **e.y))", "Select(ds, lambda e: f(**e.x))", "Select(ds, lambda e: f(*e.x))",
            "Select(ds, lambda e: e.a < e.b < e.c)", "Select(ds, lambda e: e.a < (e.b < e.c))", "Select(ds, lambda e: (e.a < e.b) < e.c)",
            "Select(ds, lambda e: e.a < e.b and e.b < e.c)", "Select(ds, lambda e: e.a < e.b <= e.c)", "Select(ds, lambda e: e.a <= e.b < e.c)",
            "Select(ds, lambda e: e.a and e.b and e.c)", "Select(ds, lambda e: e.a and (e.b and e.c))", "Select(ds, lambda e: e.a and e.b or e.c)",
            "Select(ds, lambda e: e.a if e.b else e.c)", "Select(ds, lambda e: e.b if e.a else e.c)", "Select(ds, lambda e: e.a if e.c else e.b)",
            "Select(ds, lambda e: {'a': e.x, 'b': e.y})", "Select(ds, lambda e: {'b': e.y, 'a': e.x})", "Select(ds, lambda e: {'a': e.y, 'b': e.x})",
            "Select(ds, lambda e: [e.x, e.y])", "Select(ds, lambda e: (e.x, e.y))", "Select(ds, lambda e: {e.x, e.y})",
            "Select(ds, lambda e: [j for j in e.jets if j.a if j.b])", "Select(ds, lambda e: [j for j in e.jets if j.b if j.a])",
            "Select(ds, lambda e: [j for j in e.jets if j.a and j.b])", "Select(ds, lambda e: (j for j in e.jets if j.a if j.b))",
            "Select(ds, lambda e: 0.0)", "Select(ds, lambda e: -0.0)", "Select(ds, lambda e: 0)", "Select(ds, lambda e: False)", "Select(ds, lambda e: 0j)",
            "Select(ds, lambda e: 1)", "Select(ds, lambda e: 1.0)", "Select(ds, lambda e: True)", "Select(ds, lambda e: '1')", "Select(ds, lambda e: b'1')",
            "Select(ds, lambda e: e.Pt)", "Select(ds, lambda e: e.pt)", "Select(ds, lambda e: e.PT)",
            "Select(ds, lambda e: e.\u00e9)", "Select(ds, lambda e: e.e\u0301)"]
    # string CONSTANTS that are equal only after unicode normalisation / case folding / stripping are different values
    for a, b in (("pt" + chr(0xb2), "pt2"), (chr(0xb5) + "m", chr(0x3bc) + "m"), (chr(0x212b), chr(0xc5)), (chr(0xfb01) + "t", "fit"),
                 (chr(0xe9), "e" + chr(0x301)), (chr(0xff11), "1"), ("abc", "ABC"), ("abc", " abc"), ("abc", "abc "), ("a" + chr(9) + "b", "a b"),
                 ("a" + chr(10) + "b", "a" + chr(92) + "nb"), ("", " ")):
        out += [f"Select(ds, lambda e: e.f({a!r}))", f"Select(ds, lambda e: e.f({b!r}))"]
    return out


def _fluent_cases():
    bodies_s = ["e.a", "e.a + 1", "(e.a, e.b)", "e.jets.Select(lambda j: j.pt)", "{'k': e.a}", "e.m(1, k=2)",
                "e.a if e.b > 1 else e.c", "-e.a"]
    bodies_w = ["e.a > 1", "e.a > 1 and e.b > 2"]
    out = []
    for b in bodies_s:
        out.append((("Select",), (b,)))
        out.append((("SelectMany",), (b,)))
        for w in bodies_w:
            out.append((("Where", "Select"), (w, b)))
            out.append((("Select", "Where"), (b, w.replace("e.a", "e").replace("e.b", "e"))))
    return out


CHECK = C20()
