"""C02 - chained-call simplification preserves query results."""
import ast
import copy

from .. import alpha, pkgchains, qsem, qspaces, scopecases
from ..core import Check, Space


def _simplify(q):
    from func_adl.ast.function_simplifier import simplify_chained_calls

    return simplify_chained_calls().visit(copy.deepcopy(q))


class C02(Check):
    pid = "C02"
    title = "Chained-call simplification preserves query results"
    rule = ("every closed, type-correct query of the E1 grammar up to the stated node count, under "
            "every admissible binder naming, is simplified by the real simplify_chained_calls and "
            "both sides are evaluated by CPython on every dataset of the stated family; a case is "
            "non-trivial when the simplified AST differs from the input (a rewrite fired); distinct "
            "= distinct source text")
    assumptions = [
        "reference semantics = CPython evaluation with list-comprehension LINQ operators (refsem.py)",
        "method-form queries are checked both directly and after change_extension_functions_to_calls",
        "nothing is claimed beyond the stated sizes, name pools and dataset shapes",
    ]
    FULL_DATA_MAX = 0

    def spaces(self, tier):
        Q = tier == "quick"
        P2, P3, PA = qspaces.POOL2, qspaces.POOL3, qspaces.POOL_ARG
        plan = [
            ("full", 1, 6 if Q else 8, P2, ("f",)),
            ("fusion", 5, 9 if Q else 11, P2, ("f",)),
            ("fusionx", 5, 8 if Q else 9, P2, ("f",)),
            ("binders", 5, 7 if Q else 8, P2, ("f",)),
            ("pkg", 3, 7 if Q else 9, P2, ("f",)),
            ("pkg2", 3, 8 if Q else 10, P2, ("f",)),
            ("apply", 4, 7 if Q else 8, P2, ("f",)),
            ("apply2", 4, 8 if Q else 9, P2, ("f",)),
            ("apply0", 4, 9 if Q else 10, P2, ("f",)),
            ("fusionx", 5, 6 if Q else 8, qspaces.POOL_ARG3, ("f",)),
            ("full", 1, 5 if Q else 6, P2, ("f", "m")),
            ("fusion", 5, 7 if Q else 8, P3, ("f",)),
            ("binders", 5, 6 if Q else 7, P3, ("f",)),
            ("fusion", 5, 8 if Q else 9, PA, ("f",)),
            ("hof", 4, 7 if Q else 8, P2, ("f",)),
            ("applydef", 4, 7 if Q else 8, P2, ("f",)),
            ("sidx", 4, 7 if Q else 8, P2, ("f",)),
            ("binders", 5, 7 if Q else 8, qspaces.POOL_DS, ("f",)),
            ("apply2", 4, 7 if Q else 8, qspaces.POOL_DS, ("f",)),
            ("binders", 5, 6 if Q else 7, PA, ("f",)),
        ]
        out = []
        for sl, lo, hi, pool, forms in plan:
            name = f"{sl}<= {hi} names={'/'.join(pool)} forms={''.join(forms)}".replace("<= ", "<=")
            out.append(Space(
                name, qspaces.describe(sl, lo, hi, pool, forms),
                (lambda sl=sl, lo=lo, hi=hi, pool=pool, forms=forms:
                 qspaces.enumerate_sources(sl, lo, hi, pool, forms)),
            ))
        out.append(Space("pkgchains" + ("" if Q else "-rich"),
                         {"generator": "pkgchains.chains (C14's packaging chains)", "stages": "2..3",
                          "binder_names": "every admissible assignment from pool ['e','j']"},
                         (lambda Q=Q: pkgchains.all_sources(Q)), runner="run_chain"))
        out.append(Space("dupuse names=arg_N", {"generator": "pkgchains.dupuse re-named with the simplifier's own fresh-name shape",
                                                 "binder_names": "every admissible assignment from pool arg_0..arg_" + ("1" if Q else "2")},
                         pkgchains.dupuse, runner="run_chain_arg2" if Q else "run_chain_arg"))
        out.append(Space("dupuse", {"generator": "pkgchains.dupuse: one bound sequence used twice (called "
                                    "lambda positional/keyword, previous stage, packaged field)",
                                    "binder_names": "every admissible assignment from pool ['e','j']"},
                         pkgchains.dupuse, runner="run_chain"))
        spool = ("e", "ds") if Q else ("e", "j", "ds")
        out.append(Space("revisit-capture names=" + "/".join(spool),
                         {"generator": "scopecases.skeletons: an argument mentioning the free name ds is substituted "
                                       "(called lambda, positional / keyword) into a body where a fusable construct "
                                       "(13 Int-valued and 5 sequence-valued shapes) sits below one or two uncalled binders",
                          "binder_names": f"every admissible assignment from pool {list(spool)}; a binder may be spelled "
                                          "like the free name when that name is not used below it"},
                         (lambda spool=spool: scopecases.sources(spool))))
        out.append(Space("where-chains", {"generator": "scopecases.where_chains: 2..3 Where filters from {comparison, or, and, not, or-in-and, "
                                                        "and-in-or, True} that become adjacent directly / across a Select / inside SelectMany / under Count",
                                          "binder_names": "every admissible assignment from pool ['e','j']"},
                         scopecases.where_chains, runner="run_chain"))
        out.append(Space("called-defaults", {"generator": "scopecases.called_defaults: a called lambda with two defaulted parameters under every "
                                                            "call shape Python accepts (positional count x keyword subset x keyword order); defaults "
                                                            "constant or mentioning the enclosing parameter",
                                             "binder_names": "every admissible assignment from pool ['e','j','t']"},
                         scopecases.called_defaults, runner="run_chain_p3"))
        out += self._extra_spaces()
        return out

    def _extra_spaces(self):
        return [Space("boolean-values", {"generator": "scopecases.bool_values: and / or / not used for their value over operands that are not truth "
                                                       "values, constants (written out, through a called lambda's argument, through a constant "
                                                       "projection) in every position", "binder_names": "every admissible assignment from pool ['e','j']"},
                      scopecases.bool_values, runner="run_chain"),
                Space("one-simplifier-object", {"menu": len(self.REUSE_MENU), "histories": "every sequence of 2 and 3 menu entries given to ONE "
                                                "simplify_chained_calls object (refused queries included)"},
                      (lambda: [p for n in (2, 3) for p in __import__("itertools").product(range(len(self.REUSE_MENU)), repeat=n)]),
                      runner="run_reuse")]

    REUSE_MENU = [
        "Select(Select(ds, lambda e: (e.a, e.b)), lambda t: t[2])",  # refused with the dedicated index error
        "Select(Select(ds, lambda e: e.jets), lambda j: Count(j))",
        "Select(ds, lambda arg_1: Select(arg_1.jets, lambda arg_2: Count(Where(Select(arg_1.jets, lambda arg_0: arg_0.pt + arg_1.a), lambda e: e > arg_2.pt))))",
        "Select(Select(ds, lambda arg_0: arg_0.jets), lambda arg_1: Select(arg_1, lambda arg_0: arg_0.pt + 1))",
        "Select(ds, lambda arg_3: (lambda arg_4: (Count(arg_4), Where(arg_4, lambda arg_5: arg_5 > 1)))(Select(arg_3.jets, lambda arg_4: arg_4.pt + 1)))",
        "Select(Where(Select(ds, lambda arg_7: (arg_7.a, arg_7.jets)), lambda arg_7: arg_7[0] > 1), lambda arg_8: Count(arg_8[1]))",
        "(lambda arg_0, arg_1: Select(arg_1, lambda arg_2: arg_2.a + arg_0))(1, ds)",
        "Select(ds, lambda e: (lambda t: t[5])((e.a,)))",  # refused, inside a called lambda
    ]

    def run_reuse(self, payload):
        """several queries given, one after the other, to ONE simplify_chained_calls object (as a back end that keeps its
        transformer does), without resetting the library's fresh-name counter in between; refusals are part of the history"""
        from func_adl.ast.function_simplifier import FuncADLIndexError, simplify_chained_calls

        res = {"n": 0, "nt": [repr(payload)], "oc": [], "tags": {}, "viol": []}
        t = simplify_chained_calls()
        for step, k in enumerate(payload):
            src = self.REUSE_MENU[k]
            q = qsem.parse_expr(src)
            try:
                s_ = t.visit(copy.deepcopy(q))
            except FuncADLIndexError:
                res["oc"].append("reuse:refused")
                continue
            except Exception as e:
                res["viol"].append({"kind": f"reused-object:raised:{type(e).__name__}", "canon": repr(payload), "msg": f"step {step}: {e}"[:200]})
                return res
            kind, msg, n, oc = qsem.compare(q, s_)
            res["n"] += n
            res["oc"].append("reuse:ok")
            if kind:
                res["viol"].append({"kind": "reused-object:" + kind, "canon": repr(payload),
                                    "msg": f"step {step} ({src[:80]}): {msg} ; simplified: {ast.unparse(refsem_fix(s_))[:200]}"})
                return res
        return res

    def run_chain_p3(self, src):
        return self.run_chain(src, qspaces.POOL3)

    def pair_menu(self, tier):
        """queries simplified one after the other WITHOUT resetting the library's fresh-name counter (as a backend
        process does): the second must still be simplified correctly, incl. queries that already carry arg_N names"""
        menu = [
            "Select(Select(ds, lambda e: e.jets), lambda j: Count(j))",
            "Where(Select(ds, lambda e: e.a + 1), lambda e: e > 1)",
            "Select(ds, lambda arg_1: Select(arg_1.jets, lambda arg_2: Count(Where(Select(arg_1.jets, lambda arg_0: arg_0.pt + arg_1.a), lambda e: e > arg_2.pt))))",
            "Select(Select(ds, lambda arg_0: arg_0.jets), lambda arg_1: Select(arg_1, lambda arg_0: arg_0.pt + 1))",
            "Select(ds, lambda arg_3: (lambda arg_4: (Count(arg_4), Where(arg_4, lambda arg_5: arg_5 > 1)))(Select(arg_3.jets, lambda arg_4: arg_4.pt + 1)))",
            "SelectMany(SelectMany(ds, lambda e: e.jets), lambda j: Select(j.tr, lambda t: (t.q, j.pt)))",
            "Select(Where(Select(ds, lambda arg_7: (arg_7.a, arg_7.jets)), lambda arg_7: arg_7[0] > 1), lambda arg_8: Count(arg_8[1]))",
            "(lambda arg_0, arg_1: Select(arg_1, lambda arg_2: arg_2.a + arg_0))(1, ds)",
        ]
        return [("pairs", None, m) for m in menu]

    def run_chain_arg(self, src):
        return self.run_chain(src, qspaces.POOL_ARG3)

    def run_chain_arg2(self, src):
        return self.run_chain(src, qspaces.POOL_ARG)

    def run_chain(self, src, pool=qspaces.POOL2):
        res = {"n": 0, "nt": [], "oc": [], "tags": {}, "viol": []}
        for s in alpha.namings_src(src, pool):
            r = self.run("pkgchains", s)
            res["n"] += r["n"]
            for k in ("nt", "oc", "viol"):
                res[k] += r[k]
            for k, v in r["tags"].items():
                res["tags"][k] = res["tags"].get(k, 0) + v
        return res

    def run(self, space_name, src):
        q = qsem.parse_expr(src)
        variants = [("direct", q)]
        if "forms=fm" in space_name and "." in src:
            from func_adl.ast.func_adl_ast_utils import change_extension_functions_to_calls

            variants.append(("normalised", change_extension_functions_to_calls(copy.deepcopy(q))))
        res = {"n": 0, "nt": [], "oc": [], "tags": {}, "viol": []}
        for vname, qq in variants:
            before = ast.dump(qq)
            try:
                s = _simplify(qq)
            except RecursionError:
                res["viol"].append({"kind": "raised:RecursionError", "canon": f"{vname}|{src}", "msg": ""})
                continue
            except Exception as e:
                res["oc"].append(f"raised:{type(e).__name__}")
                res["viol"].append({"kind": f"raised:{type(e).__name__}", "canon": f"{vname}|{src}",
                                    "msg": str(e)[:200]})
                continue
            if ast.dump(qq) != before:
                raise RuntimeError("harness: simplifier mutated a deep copy?!")
            changed = ast.dump(s) != before
            if changed:
                res["nt"].append(f"{vname}|{src}")
            kind, msg, n, oc = qsem.compare(qq, s)
            res["n"] += n
            res["oc"] += [("rewritten:" if changed else "unchanged:") + o for o in oc]
            if vname == "direct":
                for k, v in qsem.op_pairs(qq).items():
                    res["tags"][k] = res["tags"].get(k, 0) + v
            if kind:
                try:
                    shown = ast.unparse(refsem_fix(s))
                except Exception:
                    shown = ast.dump(s)[:300]
                res["viol"].append({"kind": kind, "canon": f"{vname}|{src}",
                                    "msg": f"{msg} ; simplified: {shown[:300]}"})
        return res

    def standalone(self, space_name, src, viol):
        return (
            "import ast, copy\n"
            "from func_adl.ast.function_simplifier import simplify_chained_calls\n"
            f"q = ast.parse({src!r}, mode='eval').body\n"
            "s = simplify_chained_calls().visit(copy.deepcopy(q))\n"
            "print(ast.unparse(q)); print(ast.dump(s))\n"
            "# evaluate both with any LINQ-over-lists implementation: the results differ\n"
        )


def refsem_fix(s):
    from .. import refsem

    return refsem.fix_ctx(copy.deepcopy(s))


CHECK = C02()
