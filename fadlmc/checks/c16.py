"""C16 - query-level metadata accumulates, is inherited, and never reaches a backend."""
import ast

from .. import explore, streams
from ..core import Check, Space
from .c11 import _prefixes

QMDS = [(("a", 1),), (("a", 2),), (("b", 1),), (("a", 1), ("b", 2)), (("a", 0),), (("b", ""),), (("a", None),)]
KEYS = ("a", "b", "zz")


class Model:
    def __init__(self, derive=("Select", "Where", "MD1", "MD0", "Awk"), qmds=QMDS[:2] + QMDS[3:], execs=("Value",), roots=(1, 1), held=False):
        self.derive, self.qmds, self.execs, self.roots, self.held = list(derive), list(qmds), list(execs), roots, held

    def fresh(self):
        w = streams.World(*self.roots)  # untyped and typed datasets (callbacks, defaulted parameters)
        w.track_twin = True
        return w

    def enabled(self, w):
        ops = []
        for i in range(len(w.streams)):
            if w.terminal[i]:
                # a result-format terminal: nothing can be derived from it, but it can be asked for query metadata (the
                # invariant does that for every live stream) and it can be executed
                for e in self.execs:
                    ops.append((e, i))
                continue
            for d in self.derive:
                ops.append((d, i))
            for q in self.qmds:
                ops.append(("QMD", i, q))
            for e in self.execs:
                ops.append((e, i))
            if self.held:
                ops.append(("QMDheld", i))
        if self.held:
            ops.append(("MutHeld", 0))
        return ops

    def op_name(self, op):
        return op[0] + (str(dict(op[2])) if op[0] == "QMD" else "")

    def outcomes(self, w):
        return {"exec" if w.last else "derive"}

    def key(self, w):
        return w.key() + repr(sorted(getattr(w, "held", {}).items()))

    def apply(self, w, op):
        from func_adl.ast.ast_hash import calc_ast_hash
        from func_adl.ast.meta_data import lookup_query_metadata

        w.apply(op)
        viol = []
        for j, s in enumerate(w.streams):
            for k in KEYS:
                got = lookup_query_metadata(s, k)
                want = w.qmd[j].get(k)
                if got != want:
                    viol.append({"kind": "lookup-differs-from-model",
                                 "msg": f"after {op}: stream #{j} {w.deriv[j]} key {k!r}: lookup -> {got!r}, "
                                        f"last value set on its path -> {want!r}"})
                    return viol
        executed = None
        if w.last is not None:
            i = w.last["target"]
            n0 = w.last["n0"]
            if len(w.log) != n0 + 1:
                return [{"kind": "executor-calls", "msg": f"{len(w.log) - n0} executor calls for one value()"}]
            executed = (i, w.log[-1][1])
        elif op[0] not in ("MutHeld",) and len(w.streams) > len(w.datasets):
            # a stream was just derived: execute it as well (what its executor receives must not depend on the
            # QMetaData calls on its path, e.g. through an item type they lost)
            i = len(w.streams) - 1
            n0 = len(w.log)
            w.streams[i].value()
            executed = (i, w.log[-1][1])
            del w.log[n0:]
        if executed is not None:
            i, got = executed
            tw = w.twin[i]
            n1 = len(w.log)
            tw.value()
            ref = w.log[-1][1]
            del w.log[n1:]
            if ast.dump(got) != ast.dump(ref):
                viol.append({"kind": "backend-ast-differs-from-QMetaData-free-chain",
                             "msg": f"{ast.dump(got)[:200]} vs {ast.dump(ref)[:200]}"})
            elif calc_ast_hash(got) != calc_ast_hash(ref):
                viol.append({"kind": "hash-differs-from-QMetaData-free-chain", "msg": ""})
            elif ast.unparse(got) != ast.unparse(ref):
                viol.append({"kind": "text-differs-from-QMetaData-free-chain", "msg": ""})
            for n in ast.walk(got):
                for f in n._fields:
                    if f == "_q_metadata":
                        viol.append({"kind": "q-metadata-is-a-field", "msg": ""})
        return viol


class C16(Check):
    pid = "C16"
    title = "Query-level metadata accumulates, is inherited, and never reaches a backend"
    state_based = True
    rule = ("breadth-first exploration of every history up to the stated depth of QMetaData({a:1}), ({a:2}), "
            "({b:1}), ({a:1,b:2}), Select, Where, MetaData (also with an empty dictionary), the AsAwkwardArray terminal and value(), each applicable to every live stream "
            "(dataset root included, branching); reference model: one dict per stream, copied from the parent on "
            "derivation and updated by QMetaData; after EVERY transition lookup_query_metadata(s, k) is compared "
            "with the model for every live stream and k in {a, b, never-set}; at value() the AST the executor "
            "receives, its ast.dump, unparse text and calc_ast_hash are compared with those of the same "
            "derivation chain built without any QMetaData; every newly derived stream is executed as well (not only the "
            "targets of value()), so a QMetaData call that changes what LATER derivations emit is seen; model 'held': the "
            "caller keeps ONE dict object, hands it to several QMetaData calls on any streams and edits it afterwards")
    assumptions = ["values are small ints incl. falsy ones (0, '') and None (a key set to None reads as None: the most recent value), plus values that differ but print alike (1 / '1', 2.5 / '2.5', "
                   "(1, 2) / '(1, 2)'); equal-value re-sets are in the alphabet ({a:1} twice); values that are equal under == "
                   "but of different type (1 / True / 1.0) are outside"]
    level_text = ("explicit-state model checking of the implementation: all histories to the stated depth, "
                  "reference-model comparison on every live stream after every transition")

    def spaces(self, tier):
        Q = tier == "quick"
        plan = [("full", 3, 1), ("qmdonly", 4, 2), ("values", 3, 1), ("held", 4, 2)] if Q else \
            [("full", 3, 1), ("qmdonly", 4, 2), ("values", 4, 2), ("held", 5, 2)]  # every derived stream is executed: depth costs more now
        out = []
        for mname, depth, plen in plan:
            m = self._model(mname)
            out.append(Space(f"histories<={depth}:{mname}", {"depth": depth, "menu": [m.op_name(o) for o in m.enabled(m.fresh())]},
                             (lambda m=m, mname=mname, depth=depth, plen=plen:
                              [(mname, depth, p) for p in _prefixes(m, plen)]), runner="run_prefix"))
        return out

    def _model(self, name):
        if name == "full":
            return Model()
        if name == "held":
            # the caller keeps ONE dict object, passes it to several QMetaData calls and edits it in between / afterwards
            return Model(derive=("Select",), qmds=[(("a", 2),)], execs=(), roots=(1, 0), held=True)
        if name == "values":
            # values that are different but print alike (1 / '1', 2.5 / '2.5', a tuple / its text)
            return Model(derive=("Select",), qmds=[(("a", 1),), (("a", "1"),), (("a", 2.5),), (("a", "2.5"),), (("a", (1, 2)),),
                                                    (("a", "(1, 2)"),)], execs=(), roots=(1, 0))
        return Model(derive=("Select",), qmds=QMDS[:5] + QMDS[6:7], execs=(), roots=(1, 0))

    def run_prefix(self, payload):
        mname, depth, prefix = payload
        m = self._model(mname)
        prefix = _tup(prefix)
        r = explore.explore(m, prefix, depth)
        res = {"n": r["trans"], "nt": [], "oc": sorted(r["outcomes"]), "tags": dict(r["ops"]), "viol": [],
               "states": r["states"], "trans": r["trans"],
               "sample_text": f"subtree below {prefix}: {len(r['states'])} states, {r['trans']} transitions"}
        for v in r["viol"]:
            res["viol"].append({"kind": v["kind"], "canon": repr(v["hist"]), "msg": v["msg"]})
        return res

    def standalone(self, space_name, payload, viol):
        import ast as _ast

        try:
            canon = viol["canon"].split("|")[-1]
            hist = _ast.literal_eval(canon)
            return streams.history_code((1, 1), hist)
        except Exception:
            return None

    def render(self, space_name, payload):
        return repr(payload)


def _tup(x):
    return tuple(_tup(i) for i in x) if isinstance(x, (list, tuple)) else x


CHECK = C16()
