"""C15 - MetaData extraction and empty-metadata removal are exact."""
import ast
import copy
import itertools

from .. import explore, qspaces
from ..core import Check, Space


# a wrapper is an expression: binding targets, slices, starred arguments and the pieces of an f-string cannot be
# wrapped themselves (the expressions inside them can)
_NOT_WRAPPABLE = (ast.Constant, ast.Slice, ast.Starred, ast.JoinedStr, ast.FormattedValue)


def scribble_fresh(tree, not_in):
    """the caller edits a result it was handed: every scalar field of every node that is NOT also part of
    `not_in` (no list is touched, so nothing that a shallow copy shares with the argument changes)"""
    old = {id(n) for n in ast.walk(not_in)}
    for n in list(ast.walk(tree)):
        if id(n) in old:
            continue
        if isinstance(n, ast.Name):
            n.id = "SCRIBBLED"
        elif isinstance(n, ast.Attribute):
            n.attr = "scribbled"
        elif isinstance(n, ast.Constant):
            n.value = "scribbled"
        elif isinstance(n, ast.arg):
            n.arg = "scribbled"


def scribble_dicts(mds):
    "the caller edits the dictionaries it was handed, in place, at every level"
    def rec(v):
        if isinstance(v, dict):
            for x in list(v.values()):
                rec(x)
            v["scribbled"] = True
        elif isinstance(v, list):
            for x in v:
                rec(x)
            v.append("scribbled")
    for d in mds:
        rec(d)
    mds.append({"scribbled": 1})


def number(tree):
    "pre-order numbering of the wrappable expression nodes of a pristine skeleton"
    nodes = []

    def w(n, is_func=False):
        # the callee expression itself cannot be wrapped (MetaData(f, d)(x) is not a query), but the receiver of a
        # method call can: MetaData(seq, d).Select(...)
        if isinstance(n, ast.expr) and not is_func and not isinstance(n, _NOT_WRAPPABLE) and \
                not isinstance(getattr(n, "ctx", None), ast.Store):
            n._pos = len(nodes)
            nodes.append(n)
        for f, v in ast.iter_fields(n):
            if isinstance(v, ast.AST):
                w(v, isinstance(n, ast.Call) and f == "func" and not (is_func and False))
            elif isinstance(v, list):
                for x in v:
                    if isinstance(x, ast.AST):
                        w(x)

    w(tree)
    return nodes


def subtree_positions(n):
    return {getattr(x, "_pos") for x in ast.walk(n) if hasattr(x, "_pos")}


def dict_ast(d):
    return ast.parse(repr(d), mode="eval").body


class _Wrap(ast.NodeTransformer):
    def __init__(self, by_pos, keep):
        self.by_pos, self.keep = by_pos, keep

    def visit(self, n):
        pos = getattr(n, "_pos", None)
        r = super().visit(n)
        if pos is not None:
            for d in self.by_pos.get(pos, []):
                if self.keep(d):
                    r = ast.Call(ast.Name("MetaData", ast.Load()), [r, dict_ast(d)], [])
        return r


def build(skel_src, placements, keep=lambda d: True):
    tree = ast.parse(skel_src, mode="eval").body
    number(tree)
    by_pos = {}
    for pos, d in placements:
        by_pos.setdefault(pos, []).append(d)
    r = _Wrap(by_pos, keep).visit(tree)
    for n in ast.walk(r):
        if hasattr(n, "_pos"):
            del n._pos
    return r


SKELETONS_EXTRA = [
    "ResultTTree(Select(ds, lambda e: e.a), ['c'], 't', 'f.root')",
    "Select(ds, lambda e: First(Select(e.jets, lambda j: j.pt)) + Count(e.trks))",
    "Select(ds, lambda e: {'k': e.a, 'l': (e.b, e.jets)})",
    "Where(Select(ds, lambda e: e.jets), lambda js: Count(Where(js, lambda j: j.pt > 1)) > 1)",
    "f(ds, g(ds2, h(x)))",
    "ds.Select(lambda e: e.jets().Where(lambda j: j.pt() > 1).Count())",
    "ds.SelectMany(lambda e: e.jets()).Select(lambda j: j.pt(k=e.a))",
    "f(x=ds, y=g(z=ds2))",
    # every syntactic position an expression can sit in: comprehension parts, lambda defaults, slices, starred and
    # keyword arguments, f-strings, conditional expressions
    "Select(ds, lambda e: [j.pt for j in e.jets if j.pt > 1 if j.eta < 2])",
    "Select(ds, lambda e, k=ds2.a, *, m=ds3: e.a + k)",
    "Select(ds, lambda e: {j.pt: j.eta for j in e.jets if j.ok})",
    "Select(ds, lambda e: e.jets[1:e.n:2][0] if e.ok else g(*e.xs, **e.kw))",
    "Select(ds, lambda e: f'{e.a}{e.b:>{e.w}}')",
]


ODD_PAYLOADS = ["[]", "''", "0", "None", "()", "False", "0.0", "b''", "[0]", "{'a': 0}", "{0: ''}", "{'': None}", "[{}]", "({},)"]


class C15(Check):
    pid = "C15"
    title = "MetaData extraction and empty-metadata removal are exact"
    rule = ("for every skeleton query (every 'fusionx' query up to the stated size plus 5 hand-shaped ones with "
            "result terminals, First/Count, packages, plain function calls) and EVERY placement of up to K MetaData "
            "wrappers on its expression nodes (any node incl. inside lambda bodies and operator arguments, the same "
            "node twice = adjacent nesting, each wrapper empty, carrying a unique dictionary, or carrying a dictionary equal to another wrapper's): extract_metadata "
            "must return the pristine skeleton (dump-equal) and the multiset of all dictionaries with every outer "
            "wrapper before the wrappers inside its source; remove_empty_metadata must return the skeleton with "
            "exactly the non-empty wrappers in place and leave the heap graph of its argument (node identity, "
            "sharing, fields, annotations) unchanged; what either function returned for one query is unchanged after the "
            "call for the next query of the enumeration (results belong to the caller); the caller then EDITS what it was handed (scalar "
            "fields of the nodes the result does not share with the argument; the returned dictionaries at every level) and, the "
            "argument being verified untouched, calls both functions on the same argument a second time: the answers must be right "
            "again. Skeletons include every syntactic position an expression can sit in (comprehension iterables / filters / keys, "
            "lambda defaults and keyword-only defaults, slice bounds, starred and keyword arguments, f-string parts, conditional "
            "expressions); dictionaries carry nested lists / dicts. Non-trivial = placement with >= 1 wrapper")
    assumptions = ["dictionaries are small literal dicts; order among unrelated wrappers is not prescribed"]

    def spaces(self, tier):
        Q = tier == "quick"
        hi, K = (6, 2) if Q else (7, 2)  # K = 3 only on the small skeletons (second space): placements x second calls x caller edits cost more now
        return [Space(f"skeletons<={hi} wrappers<={K}", {"skeleton_size": hi, "max_wrappers": K},
                      (lambda hi=hi, K=K: [(s, K) for s in
                                            qspaces.enumerate_sources("fusionx", 5, hi, ("e",)) + SKELETONS_EXTRA]),
                      runner="run_skel"),
                Space(f"small skeletons wrappers<={K + 1}", {"skeleton_size": 5, "max_wrappers": K + 1},
                      (lambda K=K: [(s, K + 1) for s in qspaces.enumerate_sources("fusionx", 5, 5, ("e",))[:12] + SKELETONS_EXTRA[4:6]]),
                      runner="run_skel"),
                Space("payloads that are not empty dictionaries", {"payloads": ODD_PAYLOADS, "skeletons": 4, "placement": "every position, alone and directly below a truly empty wrapper"},
                      [(sk, lit) for sk in ("Select(ds, lambda e: e.a)", "ds.Select(lambda e: e.jets.Where(lambda j: j.pt > 1))", "f(x=ds, y=g(z=ds2))",
                                            "ResultTTree(Select(ds, lambda e: e.a), ['c'], 't', 'f.root')") for lit in ODD_PAYLOADS], runner="run_odd")]

    def run_odd(self, payload):
        """a MetaData call whose second argument is a literal but NOT an empty dictionary (a falsy list, string, number, None, a
        non-empty dictionary with falsy contents): remove_empty_metadata must keep it, whatever else it removes"""
        from func_adl.ast.meta_data import remove_empty_metadata

        skel, lit = payload
        canon = f"{skel}|payload {lit}"
        res = {"n": 0, "nt": [canon], "oc": [], "tags": {}, "viol": []}
        pristine = ast.parse(skel, mode="eval").body
        nodes = number(pristine)
        for pos in range(len(nodes)):
            for with_empty in (False, True):
                tree = ast.parse(skel, mode="eval").body
                number(tree)

                class W(ast.NodeTransformer):
                    def visit(self, n):
                        p_ = getattr(n, "_pos", None)
                        r = super().visit(n)
                        if p_ == pos:
                            r = ast.Call(ast.Name("MetaData", ast.Load()), [r, ast.parse(lit, mode="eval").body], [])
                            if with_empty:
                                r = ast.Call(ast.Name("MetaData", ast.Load()), [r, ast.Dict([], [])], [])
                        return r
                a = W().visit(tree)
                want = copy.deepcopy(a)
                if with_empty:
                    # the reference: only the outer, truly empty wrapper goes
                    class U(ast.NodeTransformer):
                        def visit_Call(self, n):
                            self.generic_visit(n)
                            if isinstance(n.func, ast.Name) and n.func.id == "MetaData" and isinstance(n.args[1], ast.Dict) and not n.args[1].keys:
                                return n.args[0]
                            return n
                    want = U().visit(want)
                for n in ast.walk(a):
                    if hasattr(n, "_pos"):
                        del n._pos
                for n in ast.walk(want):
                    if hasattr(n, "_pos"):
                        del n._pos
                res["n"] += 1
                try:
                    got = remove_empty_metadata(a)
                except Exception as e:
                    res["oc"].append("raised")
                    res["viol"].append({"kind": f"remove-raised:{type(e).__name__}", "canon": canon, "msg": str(e)[:120]})
                    return res
                if ast.dump(got) != ast.dump(want):
                    res["oc"].append("removed-non-empty")
                    res["viol"].append({"kind": "remove-empty-removed-a-wrapper-that-is-not-an-empty-dictionary", "canon": canon,
                                        "msg": f"position {pos}: {ast.unparse(got)[:160]} expected {ast.unparse(want)[:160]}"})
                    return res
        res["oc"].append("kept")
        return res

    def run_skel(self, payload):
        from func_adl.ast.meta_data import extract_metadata, remove_empty_metadata

        skel, K = payload
        res = {"n": 0, "nt": [], "oc": [], "tags": {}, "viol": []}
        pristine = ast.parse(skel, mode="eval").body
        nodes = number(pristine)
        sub = {n._pos: subtree_positions(n) for n in nodes}
        want_plain = ast.dump(ast.parse(skel, mode="eval").body)
        npos = len(nodes)
        held = None  # what the previous calls returned, still held by the caller
        for k in range(0, K + 1):
            for positions in itertools.combinations_with_replacement(range(npos), k):
                for empties in itertools.product((False, True, "same"), repeat=k):
                    placements = [(p, {} if e is True else ({"same": [1, {"x": [2]}]} if e == "same" else {"id": i, "s": f"v{i}"}))
                                  for i, (p, e) in enumerate(zip(positions, empties))]
                    canon = f"{skel}|{positions}|{empties}"
                    a = build(skel, placements)
                    res["n"] += 1
                    if k:
                        res["nt"].append(canon)
                    # ---- extract_metadata
                    try:
                        stripped, mds = extract_metadata(copy.deepcopy(a))
                    except Exception as e:
                        res["viol"].append({"kind": f"extract-raised:{type(e).__name__}", "canon": canon, "msg": str(e)[:150]})
                        continue
                    if ast.dump(stripped) != want_plain:
                        res["viol"].append({"kind": "extract-ast-differs", "canon": canon,
                                            "msg": f"{ast.unparse(stripped)[:200]}"})
                    exp = [d for _, d in placements]
                    if sorted(map(repr, mds)) != sorted(map(repr, exp)):
                        res["viol"].append({"kind": "extract-dictionaries-differ", "canon": canon,
                                            "msg": f"got {mds} expected (any admissible order) {exp}"})
                    else:
                        for i, (pi, di) in enumerate(placements):
                            for j, (pj, dj) in enumerate(placements):
                                if i == j or not di or not dj or "same" in di or "same" in dj:
                                    continue
                                # wrapper j is outside wrapper i: j wraps an ancestor, or the same node later
                                outer = (pi in sub[pj] and pi != pj) or (pi == pj and j > i)
                                if outer and mds.index(dj) > mds.index(di):
                                    res["viol"].append({"kind": "extract-order", "canon": canon,
                                                        "msg": f"inner {di} listed before outer {dj}: {mds}"})
                    # ---- remove_empty_metadata
                    before = explore.heap_key([a], [None], lambda v: "?")
                    try:
                        cleaned = remove_empty_metadata(a)
                    except Exception as e:
                        res["viol"].append({"kind": f"remove-raised:{type(e).__name__}", "canon": canon, "msg": str(e)[:150]})
                        continue
                    want_clean = ast.dump(build(skel, placements, keep=lambda d: bool(d)))
                    if ast.dump(cleaned) != want_clean:
                        res["viol"].append({"kind": "remove-empty-result-differs", "canon": canon,
                                            "msg": f"{ast.unparse(cleaned)[:200]}"})
                    if explore.heap_key([a], [None], lambda v: "?") != before:
                        res["viol"].append({"kind": "remove-empty-mutated-its-argument", "canon": canon,
                                            "msg": ast.unparse(a)[:200]})
                    if k:
                        # the same query with non-field annotations on its wrapper nodes (what QMetaData / executors attach):
                        # annotations are not part of the query - exactly the empty wrappers go, as before
                        a2 = copy.deepcopy(a)
                        for n_ in ast.walk(a2):
                            if isinstance(n_, ast.Call) and isinstance(n_.func, ast.Name) and n_.func.id == "MetaData":
                                n_._q_metadata = {"note": 1}
                                n_._func_adl_executor = print
                        try:
                            if ast.dump(remove_empty_metadata(a2)) != want_clean:
                                res["viol"].append({"kind": "remove-empty-result-differs:annotated-nodes", "canon": canon, "msg": ""})
                        except Exception as e:
                            res["viol"].append({"kind": f"remove-raised:annotated-nodes:{type(e).__name__}", "canon": canon, "msg": str(e)[:100]})
                    # ---- the caller edits what it was handed (fresh nodes / the dictionaries); the argument is
                    # verified untouched by that, and a second call on the SAME argument must give the right answer again
                    scribble_fresh(cleaned, a)
                    scribble_fresh(stripped, a)
                    scribble_dicts(mds)
                    if explore.heap_key([a], [None], lambda v: "?") == before:
                        try:
                            cleaned2 = remove_empty_metadata(a)
                            if ast.dump(cleaned2) != want_clean:
                                res["viol"].append({"kind": "remove-empty-second-call-on-same-argument-differs", "canon": canon,
                                                    "msg": f"{ast.unparse(cleaned2)[:200]}"})
                            stripped2, mds2 = extract_metadata(copy.deepcopy(a))
                            if ast.dump(stripped2) != want_plain or sorted(map(repr, mds2)) != sorted(map(repr, exp)):
                                res["viol"].append({"kind": "extract-second-call-differs", "canon": canon,
                                                    "msg": f"{ast.unparse(stripped2)[:120]} {mds2}"})
                            cleaned, stripped, mds = cleaned2, stripped2, mds2
                        except Exception as e:
                            res["viol"].append({"kind": f"second-call-raised:{type(e).__name__}", "canon": canon, "msg": str(e)[:150]})
                    # ---- results handed out earlier are the caller's: later calls must not change them
                    if held is not None:
                        h_canon, h_stripped, h_mds, h_cleaned, h_snap = held
                        now = (ast.dump(h_stripped), repr(h_mds), ast.dump(h_cleaned))
                        if now != h_snap:
                            res["viol"].append({"kind": "earlier-result-changed-by-later-call", "canon": f"{h_canon} ;then; {canon}",
                                                "msg": f"was {h_snap[1][:100]} / now {now[1][:100]}"})
                    held = (canon, stripped, mds, cleaned, (ast.dump(stripped), repr(mds), ast.dump(cleaned)))
                    res["oc"].append(f"k={k}:empties={sum(1 for e in empties if e is True)}")
        res["oc"] = sorted(set(res["oc"])) if not res["viol"] else res["oc"][:3]
        res["viol"] = res["viol"][:30]
        return res

    def render(self, space_name, payload):
        return repr(payload)


CHECK = C15()
