"""C03 - source recovery returns the lambda that was actually passed."""
import ast
import linecache

from .. import layouts
from ..core import Check, Space


class R:
    "symbolic recorder: every use builds a string, so two lambdas agree on R iff they are the same lambda"

    def __init__(self, t):
        self._t = t

    def __getattr__(self, n):
        if n.startswith("__"):
            raise AttributeError(n)
        return R(f"{self._t}.{n}")

    def __str__(self):
        return self._t

    __repr__ = __str__

    def __format__(self, spec):
        return self._t

    def __getitem__(self, i):
        return R(f"{self._t}[{i!r}]")

    def __call__(self, *a, **k):
        parts = [x._t if isinstance(x, R) else (beh(x) if callable(x) else repr(x)) for x in a]
        return R(f"{self._t}({','.join(parts)})")

    def _b(self, op, o):
        return R(f"({self._t}{op}{o._t if isinstance(o, R) else repr(o)})")

    def __add__(self, o):
        return self._b("+", o)

    def __gt__(self, o):
        return self._b(">", o)


def beh(f):
    try:
        r = f(R("$"))
        return r._t if isinstance(r, R) else repr(r)
    except Exception as e:
        return f"ERR:{type(e).__name__}"


_N = [0]


def make_ds(records):
    "a dataset class whose operators go to the REAL operators and record (op, behaviour passed, outcome)"
    from func_adl import EventDataset

    class DS(EventDataset):
        flag = True

        async def execute_result_async(self, a, title=None):
            return a

        def _do(self, op, f, known_types):
            want = beh(f)
            try:
                s = getattr(EventDataset, op)(self, f, known_types) if known_types else getattr(EventDataset, op)(self, f)
            except Exception as e:
                records.append((op, want, ("raised", type(e).__name__, str(e)[:80])))
                return self
            node = s.query_ast.args[1]
            try:
                got_f = eval(compile(ast.fix_missing_locations(ast.Expression(node)), "<rec>", "eval"), {})
                got = beh(got_f)
            except Exception as e:
                got = f"UNCOMPILABLE:{type(e).__name__}"
            records.append((op, want, ("ok", got)))
            s.__class__ = DS
            return s

        def Select(self, f, known_types={}):
            return self._do("Select", f, known_types)

        def Where(self, f, known_types={}):
            return self._do("Where", f, known_types)

        def SelectMany(self, f, known_types={}):
            return self._do("SelectMany", f, known_types)

        def sel(self, f):
            return self.Select(f)

        def keep(self, f):
            return self

        def apply(self, f):
            return f(self)

        def __getattr__(self, n):
            if n in layouts.FRAGMENTS:
                return lambda *a: self
            raise AttributeError(n)

    return DS


def run_layout(src):
    """exec the layout; returns list of per-call records (op, callable behaviour, outcome) where outcome is
    ('ok', behaviour of the recorded lambda) or ('raised', exception type)."""
    records = []
    DS = make_ds(records)

    _N[0] += 1
    fn = f"<c03lay{_N[0]}>"
    linecache.cache[fn] = (len(src), None, src.splitlines(True), fn)
    g = {"ds": DS(), "__name__": f"c03lay{_N[0]}"}
    try:
        exec(compile(src, fn, "exec"), g)
        crashed = None
    except Exception as e:
        crashed = f"{type(e).__name__}: {e}"
    finally:
        linecache.cache.pop(fn, None)
    return records, crashed


VERSIONS = {
    # same layout, same length, another body / a line more in front and another body
    "inline": {"A": "def build(ds):\n    return ds.Select(lambda e: e.m1 + 1)\n",
               "B": "def build(ds):\n    return ds.Select(lambda e: e.m2 + 1)\n",
               "C": "X = 1\ndef build(ds):\n    return ds.Select(lambda e: e.m3.x + 1)\n"},
    "wrapped": {"A": "def build(ds):\n    return ds.Select(\n        lambda e: e.m1 + 1\n    )\n",
                "B": "def build(ds):\n    return ds.Select(\n        lambda e: e.m2 + 1\n    )\n",
                "C": "def build(ds):\n    return ds.Where(lambda f: f.m0 > 1).Select(\n        lambda e: e.m3.x + 1\n    )\n"},
    "named-def": {"A": "def f(e): return e.m1 + 1\ndef build(ds):\n    return ds.Select(f)\n",
                  "B": "def f(e): return e.m2 + 1\ndef build(ds):\n    return ds.Select(f)\n",
                  "C": "Y = 2\ndef f(e):\n    return e.m3.x + 1\ndef build(ds):\n    return ds.Select(f)\n"},
}


def reload_histories():
    import itertools

    out = []
    for lay in VERSIONS:
        for n in (2, 3):
            for seq in itertools.product("ABC", repeat=n):
                if all(seq[i] != seq[i + 1] for i in range(n - 1)):
                    out.append((lay, seq))
    return out


def run_reload(lay, seq):
    """a source file on disk is written, imported, used, then edited and reloaded (as in an interactive session);
    after every step the query is built again: it must hold the lambda of the file's CURRENT text"""
    import importlib
    import importlib.util
    import os
    import shutil
    import sys
    import tempfile

    records = []
    DS = make_ds(records)
    d = tempfile.mkdtemp(prefix="fadlmc_c03_")
    _N[0] += 1
    name = f"fadlmc_c03_reload_{os.getpid()}_{_N[0]}"
    path = os.path.join(d, name + ".py")
    old_flag = sys.dont_write_bytecode
    sys.dont_write_bytecode = True
    steps = []
    try:
        mod = None
        for k, v in enumerate(seq):
            with open(path, "w") as f:
                f.write(VERSIONS[lay][v])
            os.utime(path, (1_000_000_000 + 100 * k, 1_000_000_000 + 100 * k))
            if mod is None:
                spec = importlib.util.spec_from_file_location(name, path)
                mod = importlib.util.module_from_spec(spec)
                sys.modules[name] = mod
                spec.loader.exec_module(mod)
            else:
                importlib.invalidate_caches()
                spec.loader.exec_module(mod)  # what importlib.reload does for a module with a known spec
            n0 = len(records)
            try:
                mod.build(DS())
                crashed = None
            except Exception as e:
                crashed = f"{type(e).__name__}: {e}"
            steps.append((v, records[n0:], crashed))
    finally:
        sys.dont_write_bytecode = old_flag
        sys.modules.pop(name, None)
        linecache.cache.pop(path, None)
        shutil.rmtree(d, ignore_errors=True)
    return steps


ORDINARY = ("module", "def", "method", "if-block", "try-block", "module-eof", "method-tabs", "def-if-tabs",
            "nested-def-namesake-below", "nested-def-namesake-above", "method-namesake-below")


def supported(meta):
    """documented-supported layouts (conservative): plain operators, ordinary statement contexts, and no two
    lambdas starting on the same physical line with the same operator and the same parameter name"""
    shape, ctx = meta[0], meta[1]
    if shape.startswith("closure:"):
        return ctx in ORDINARY
    if shape.startswith("one:"):
        return True  # one lambda on the line is the documented base case, whatever else the line holds
    if shape.startswith("named:"):
        # functions defined with def and passed by name are a documented way to supply the callable
        parts = shape.split(":")
        return "lam" not in parts[2:] and ctx in ORDINARY and not any(c[0] == "sel" for c in meta[2:]) \
            and not parts[1].startswith("mixed")
    calls = meta[2:] if len(meta) > 3 else meta[2]
    if isinstance(calls[0], str):
        calls = meta[2:]
    if ctx not in ORDINARY + ("nested-def",):
        return False
    if any(c[0] == "sel" for c in calls):
        return False
    if shape in ("ifexp", "tuple", "semicolon", "otherarg", "mixed3", "enclosing", "enclosing-apply"):
        return False
    same_line = {"line": [(0, 1)], "funny": [(0, 1)], "wrap2": [(0, 1)], "line3": [(0, 1), (1, 2), (0, 2)]}.get(shape, [])
    for i, j in same_line:
        if calls[i][0] == calls[j][0] and calls[i][1] == calls[j][1]:
            return False
    return True


class C03(Check):
    pid = "C03"
    title = "Source recovery returns the lambda that was actually passed"
    rule = ("every layout of the slot enumerator: 2 calls x operator {Select, Where, SelectMany, a forwarding wrapper} "
            "x parameter name {e, f} x body style {one line, broken after the operand, parenthesised multi-line, with a "
            "comment containing brackets and the word lambda, with a string containing brackets / commas / 'lambda z:', "
            "with a nested lambda} x statement shape {one line, black chain, wrapped arguments, second call wrapped, "
            "')' on the next line, two statements, conditional expression, tuple, semicolon, a lambda passed to an "
            "unrelated method before} x context {module, def, method, nested def, one-line def, one-line if, "
            "decorator argument}; plus 3-call chains. Each call goes to the REAL operator through a recording subclass; "
            "oracle: the call raised, or the lambda recorded in the query behaves exactly like the callable that was "
            "passed when both are applied to a symbolic recorder (every lambda carries a unique marker, so agreement "
            "means identity); layouts in the documented-supported class must not raise. Non-trivial = distinct layout")
    assumptions = [
        "documented-supported class (must not raise): plain operators in module/def/method/nested-def context, shapes "
        "line/chain/wrap/wrap2/funny/assign, excluding two lambdas that start on one physical line with the same "
        "operator and the same parameter name (the documented refusal)",
        "backslash continuations and lambdas with several parameters are outside the alphabet",
        "outside the supported class ANY exception counts as 'it raises' (the statement does not fix the type)",
    ]

    def spaces(self, tier):
        Q = tier == "quick"
        styles = ("one", "brk", "str", "fstr0", "fstr1", "coll", "uni", "clo") if Q else layouts.STYLES
        ctxs = layouts.CONTEXTS
        return [
            Space("two-calls", {"ops": layouts.OPS, "params": layouts.PARAMS, "styles": styles, "contexts": ctxs},
                  (lambda: layouts.enumerate_two_calls(layouts.OPS, layouts.PARAMS, styles, ctxs)), runner="run_lay"),
            Space("two-calls:f-string pieces", {"styles": ("one",) + layouts.FSTRING_PIECE_STYLES, "contexts": ("module", "def", "method"),
                                                 "note": "f-strings whose literal pieces are one unmatched bracket character"},
                  (lambda: [c for c in layouts.enumerate_two_calls(layouts.OPS[:3], layouts.PARAMS, ("one",) + layouts.FSTRING_PIECE_STYLES,
                                                                   ("module", "def", "method"))
                            if c[1][2][3] != "one" or c[1][3][3] != "one"]), runner="run_lay"),
            Space("named-functions", {"forms": ["one-line def", "two-line def", "def with docstring", "def with comment",
                                                "lambda bound to a name"], "calls": ["one", "two", "mixed with an inline lambda",
                                                                                    "two statements"]},
                  layouts.enumerate_named_functions, runner="run_lay"),
            Space("one-call-with-neighbours", {"neighbours": "names that are fragments of the word lambda, before / after the "
                                               "call on the same line: conditional expression, tuple, second statement, "
                                               "method called on the result", "fragments": list(layouts.FRAGMENTS)},
                  layouts.enumerate_one_call_with_neighbours, runner="run_lay"),
            Space("edit-and-reload histories", {"layouts": list(VERSIONS), "versions": "A, B (same size, another body), C (lines "
                                                "shifted, another body)", "histories": "every sequence of 2..3 versions, "
                                                "adjacent ones different; the query is rebuilt after each (re)load"},
                  reload_histories, runner="run_reload_case"),
            Space("closure-reuse", {"shapes": ["loop", "helper called twice", "list comprehension", "default argument", "two sites"]},
                  layouts.enumerate_closure_reuse, runner="run_lay"),
            Space("three-calls", {"ops": layouts.OPS[:3] if Q else layouts.OPS, "params": layouts.PARAMS},
                  (lambda: layouts.enumerate_three_calls(layouts.OPS[:3] if Q else layouts.OPS, layouts.PARAMS,
                                                         ("module", "def", "oneline-def", "oneline-def1", "method"))), runner="run_lay"),
        ]

    def run_reload_case(self, payload):
        lay, seq = payload
        seq = tuple(seq)
        canon = repr((lay, seq))
        res = {"n": len(seq), "nt": [canon], "oc": [], "tags": {}, "viol": []}
        for k, (v, recs, crashed) in enumerate(run_reload(lay, seq)):
            if crashed and not recs:
                raise RuntimeError(f"harness: reload step does not execute: {crashed}")
            for op, want, out in recs:
                if out[0] == "raised":
                    res["oc"].append("raised")
                    res["viol"].append({"kind": "supported-layout-refused:after-reload" if k else "supported-layout-refused",
                                        "canon": canon, "msg": f"step {k} (version {v}) {op}: {out[2]}"})
                elif out[1] != want:
                    res["oc"].append("STALE")
                    res["viol"].append({"kind": "recorded-a-different-lambda:after-reload", "canon": canon,
                                        "msg": f"step {k} (version {v}): {op} was passed {want} but the query holds {out[1]}"})
                else:
                    res["oc"].append("recovered")
        res["oc"] = sorted(set(res["oc"]))
        res["viol"] = res["viol"][:1]
        return res

    def run_lay(self, payload):
        src, meta = payload
        meta = _tup(meta)
        res = {"n": 1, "nt": [src], "oc": [], "tags": {}, "viol": []}
        records, crashed = run_layout(src)
        if crashed and not records:
            raise RuntimeError(f"harness: layout does not execute: {crashed}\n{src}")
        sup = supported(meta)
        for op, want, out in records:
            if out[0] == "raised":
                res["oc"].append("raised:" + out[1])
                if sup:
                    res["viol"].append({"kind": "supported-layout-refused", "canon": src, "msg": f"{op}: {out[2]}"})
            elif out[1] != want:
                res["oc"].append("WRONG")
                res["viol"].append({"kind": "recorded-a-different-lambda", "canon": src,
                                    "msg": f"{op} was passed {want} but the query holds {out[1]}"})
            else:
                res["oc"].append("recovered")
        res["tags"][f"shape:{meta[0]}"] = 1
        res["tags"][f"ctx:{meta[1]}"] = 1
        res["oc"] = sorted(set(res["oc"]))
        res["viol"] = res["viol"][:1]
        return res

    def render(self, space_name, payload):
        return payload[0]


def _tup(x):
    return tuple(_tup(i) for i in x) if isinstance(x, (list, tuple)) else x


CHECK = C03()
