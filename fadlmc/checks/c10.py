"""C10 - untyped queries pass through unchanged; refusals are explicit."""
import ast
import copy
import linecache

from ..core import Check, Space

POOL = ["x", "value", "id", "attr", "args", "func", "ctx", "elts", "keys", "slice", "body", "lineno", "kind", "n", "s",
        "col_offset", "arg", "op", "left", "values", "orelse", "test"]
LEAVES = ["e", "1", "1.5", "'s'", "True", "e.x"]

# (name, template, number of slots)
PRODS = [(f"attr.{n}", "({0})." + n, 1) for n in POOL] + [
    ("meth0", "({0}).m()", 1), ("meth1", "({0}).m({1})", 2), ("methkw", "({0}).m(k={1})", 2),
    ("meth2kw", "({0}).m({1}, k={2})", 3), ("meth.value", "({0}).value({1})", 2), ("meth.id", "({0}).id()", 1),
    ("meth.args", "({0}).args(args={1})", 2),
    ("call1", "f({0})", 1), ("call2kw", "f({0}, k={1})", 2), ("callstar", "g()", 0),
    ("sub0", "({0})[0]", 1), ("subk", "({0})['k']", 1), ("subv", "({0})[{1}]", 2), ("slice", "({0})[1:2]", 1),
    ("neg", "-({0})", 1), ("not", "not ({0})", 1), ("pos", "+({0})", 1), ("inv", "~({0})", 1),
    ("add", "({0}) + ({1})", 2), ("sub", "({0}) - ({1})", 2), ("mul", "({0}) * ({1})", 2), ("div", "({0}) / ({1})", 2),
    ("mod", "({0}) % ({1})", 2), ("floordiv", "({0}) // ({1})", 2), ("pow", "({0}) ** ({1})", 2),
    ("bitand", "({0}) & ({1})", 2), ("bitor", "({0}) | ({1})", 2), ("bitxor", "({0}) ^ ({1})", 2),
    ("lshift", "({0}) << ({1})", 2), ("rshift", "({0}) >> ({1})", 2), ("matmul", "({0}) @ ({1})", 2),
    ("len", "len({0})", 1), ("is", "({0}) is ({1})", 2), ("notin", "({0}) not in ({1})", 2),
    ("and", "({0}) and ({1})", 2), ("or", "({0}) or ({1})", 2), ("and3", "({0}) and ({1}) and ({2})", 3),
    ("gt", "({0}) > ({1})", 2), ("eq", "({0}) == ({1})", 2), ("ne", "({0}) != ({1})", 2), ("le", "({0}) <= ({1})", 2),
    ("chain", "({0}) < ({1}) < ({2})", 3), ("in", "({0}) in ({1})", 2),
    ("ifexp", "({0}) if ({1}) else ({2})", 3),
    ("tuple2", "(({0}), ({1}))", 2), ("tuple1", "(({0}),)", 1), ("list2", "[({0}), ({1})]", 2), ("list0", "[]", 0),
    ("dict2", "{{'a': ({0}), 'b': ({1})}}", 2), ("dict.space", "{{'a b': ({0})}}", 1), ("dict.kw", "{{'class': ({0})}}", 1),
    ("dict.empty", "{{'': ({0})}}", 1), ("dict.digit", "{{'1x': ({0})}}", 1), ("dict.dup", "{{'a': ({0}), 'a': ({1})}}", 2),
    ("dict0", "{{}}", 0),
    ("lam.arg", "({0}).Select(lambda y: ({1}))", 2), ("lam.argy", "({0}).Select(lambda y: y.pt + ({1}))", 2),
    ("lam.same", "({0}).Where(lambda e: e.pt > ({1}))", 2), ("lam.call", "(lambda y: y + 1)({0})", 1),
    ("tupidx0", "(({0}), ({1}))[0]", 2), ("tupidx1", "(({0}), ({1}))[1]", 2), ("tupidx2", "(({0}), ({1}))[2]", 2),
    ("tupidxv", "(({0}), 1)[{1}]", 2), ("tupidxneg", "(({0}), 1)[-1]", 1), ("tupidxneg3", "(({0}), 1)[-3]", 1), ("tupidxneg2", "(({0}), 1)[-2]", 1),
    ("lstidxneg3", "[({0}), 1][-3]", 1), ("lstidx2", "[({0}), 1][2]", 1), ("lstidx", "[({0}), 1][0]", 1),
    ("dictattr", "{{'a': ({0})}}.a", 1), ("dictkey", "{{'a': ({0})}}['a']", 1), ("dictmiss", "{{'a': ({0})}}.b", 1),
    ("dictmisskey", "{{'a': ({0})}}['b']", 1), ("dictzip", "{{'a': ({0})}}.Zip()", 1),
    ("dictattr.camel", "{{'jetPt': ({0})}}.jetPt", 1), ("dictmiss.case", "{{'pt': ({0})}}.Pt", 1),
    ("dictkey.camel", "{{'isGood': ({0})}}['isGood']", 1),
    ("none", "None", 0), ("ellipsis", "...", 0), ("bytes", "b'x'", 0), ("cplx", "1j", 0), ("bigint", str(2 ** 70), 0),
    ("fstr", "f'{{({0})}}'", 1), ("starred", "f(*({0}))", 1), ("dstar", "f(**({0}))", 1), ("walrus", "(z := ({0}))", 1),
    ("set", "{{({0}), 1}}", 1), ("attrcall", "({0}).a.b.c(1).d", 1),
    # a callable (a lambda, the bare name of a builtin the library knows) as a branch of a conditional / as an operand
    ("ifexp.lam1", "(lambda y: y) if ({0}) else ({1})", 2), ("ifexp.lam2", "({0}) if ({1}) else (lambda y: y)", 2),
    ("ifexp.fn1", "abs if ({0}) else ({1})", 2), ("ifexp.fn2", "({0}) if ({1}) else len", 2), ("ifexp.lamlam", "(lambda y: y) if ({0}) else (lambda z: z)", 1),
    ("fnname", "f(abs, ({0}))", 1),
    # string constants with runs of blanks / a real tab character (in keys, lookups, comparisons)
    ("str.2sp", "'a  b'", 0), ("str.tab", "'x\ty\t\tz'", 0), ("dict.2sp", "{{'jet  pt': ({0})}}", 1), ("dictkey.2sp", "{{'a  b': ({0})}}['a  b']", 1),
    ("eq.2sp", "({0}) == 'run  2'", 1), ("str.lead", "'  x '", 0),
    # dictionary literals that mix keys that could be field names with keys that could not; either kind looked up
    ("dictkey.mixed", "{{'jet pt': ({0}), 'n': ({1})}}['jet pt']", 2), ("dictkey.mixed2", "{{'n': ({0}), 'a-b': ({1})}}['a-b']", 2),
    ("dictkey.mixed3", "{{'1x': ({0}), 'n': ({1})}}['n']", 2), ("dictattr.mixed", "{{'class': ({0}), 'n': ({1})}}.n", 2),
    ("dictkey.mixed4", "{{'': ({0}), 'n': ({1})}}['']", 2),
]
LEGAL_CONST = (str, int, float, bool, complex, bytes)


DIAG_PARENTS = ("add", "sub", "mul", "div", "mod", "and", "or", "gt", "eq", "ifexp", "tuple2", "list2", "dict2", "bitand", "lshift", "matmul")
DIAG_CHILDREN = ("gt", "eq", "not", "and", "neg", "add", "div", "leaf:1", "leaf:1.5", "leaf:'s'", "leaf:True", "tuple2", "dict2", "len")


def fill(tpl, kids):
    return tpl.format(*kids)


def leafprods():
    return [(f"leaf:{s}", s, 0) for s in LEAVES]


def gen_sources(depth3_reps):
    """depth 1: every production over default leaves; depth 2: every production x slot x every
    production (complete pair coverage); depth 3: x every production in depth3_reps as grandchild."""
    allp = PRODS + leafprods()
    d1 = {}
    for name, tpl, k in allp:
        d1[name] = fill(tpl, ["e.x"] * k)
    out = {}
    for name, s in d1.items():
        out[s] = ("d1", name)
    d2 = {}
    for name, tpl, k in PRODS:
        for slot in range(k):
            for cname, csrc in d1.items():
                kids = ["e.x"] * k
                kids[slot] = csrc
                s = fill(tpl, kids)
                d2[(name, slot, cname)] = s
                out.setdefault(s, ("d2", f"{name}[{slot}]<-{cname}"))
    # every slot filled with the SAME child (operators whose treatment depends on both operands agreeing)
    d2same = {}
    for name, tpl, k in PRODS:
        if k >= 2:
            for cname, csrc in d1.items():
                s = fill(tpl, [csrc] * k)
                d2same[(name, cname)] = s
                out.setdefault(s, ("d2", f"{name}[all]<-{cname}"))
    for name, tpl, k in PRODS:
        for slot in range(k):
            for (cname, gname), csrc in d2same.items():
                if cname in DIAG_PARENTS and gname in DIAG_CHILDREN:
                    kids = ["e.x"] * k
                    kids[slot] = csrc
                    out.setdefault(fill(tpl, kids), ("d3", f"{name}[{slot}]<-{cname}[all]<-{gname}"))
    # the same on two levels: every slot of the parent holds the child whose every slot holds the grandchild
    for name, tpl, k in PRODS:
        if name in DIAG_PARENTS:
            for cname, ctpl, ck in PRODS:
                if cname in DIAG_PARENTS + ("dict.space", "tuple1", "dictattr", "neg", "not") and ck >= 1:
                    for gname in DIAG_CHILDREN:
                        g = d1[gname]
                        s = fill(tpl, [fill(ctpl, [g] * ck)] * k)
                        out.setdefault(s, ("d3", f"{name}[all]<-{cname}[all]<-{gname}"))
    reps = [p for p in PRODS if p[0] in depth3_reps]
    for (name, slot, cname), _ in list(d2.items()):
        ctpl, ck = next((t, k) for n, t, k in allp if n == cname)
        if ck == 0:
            continue
        ptpl, pk = next((t, k) for n, t, k in PRODS if n == name)
        for cslot in range(ck):
            for gname, gtpl, gk in reps:
                ckids = ["e.x"] * ck
                ckids[cslot] = fill(gtpl, ["e"] * gk)
                kids = ["e.x"] * pk
                kids[slot] = fill(ctpl, ckids)
                s = fill(ptpl, kids)
                out.setdefault(s, ("d3", f"{name}[{slot}]<-{cname}[{cslot}]<-{gname}"))
    return out


def nested_records():
    """two dictionary literals with the same outer key and differently shaped inner dictionaries, one built and one
    taken apart through both levels with every spelling of the two lookups (present and absent inner keys)"""
    inners = ["{'p': e.x}", "{'q': e.y}", "{'p': e.x, 'q': e.y}", "{'p': 1.5}", "{'p': 's'}"]
    acc = [("['a']['%s']", "%s"), (".a.%s", "%s"), ("['a'].%s", "%s"), (".a['%s']", "%s")]
    out = []
    for i1 in inners:
        for i2 in inners:
            for a, _ in acc:
                for k in ("p", "q"):
                    out.append(f"({{'a': {i1}}}, {{'a': {i2}}}{a % k})")
                    out.append(f"({{'a': {i2}}}{a % k}, {{'a': {i1}}})")
    return out


# ----------------------------------------------------------------------------- independent trigger predicate
def _kind(n):
    if isinstance(n, ast.Constant):
        return type(n.value).__name__
    if isinstance(n, (ast.Compare, ast.BoolOp)):
        return "bool"
    if isinstance(n, ast.UnaryOp) and isinstance(n.op, ast.Not):
        # bool in Python; a type follower that gives it the operand's type is not ruled out by the property
        return "bool" if _kind(n.operand) == "bool" else "not-of-unknown"
    if isinstance(n, ast.UnaryOp):
        k = _kind(n.operand)  # a type follower may give -x / +x / ~x the operand's type
        return k
    if isinstance(n, ast.Subscript) and isinstance(n.value, (ast.Tuple, ast.List)) and \
            isinstance(n.slice, ast.Constant) and isinstance(n.slice.value, int) and 0 <= n.slice.value < len(n.value.elts):
        return _kind(n.value.elts[n.slice.value])
    if isinstance(n, (ast.Attribute, ast.Subscript)) and isinstance(n.value, ast.Dict):
        key = n.attr if isinstance(n, ast.Attribute) else (n.slice.value if isinstance(n.slice, ast.Constant) else None)
        for k, v in zip(n.value.keys, n.value.values):
            if isinstance(k, ast.Constant) and k.value == key:
                return _kind(v)
    if isinstance(n, ast.IfExp):
        a, b = _kind(n.body), _kind(n.orelse)
        return a if a == b else "other"
    if isinstance(n, ast.Lambda) or (isinstance(n, ast.Name) and n.id in ("abs", "len")):
        return f"callable#{id(n)}"  # the statement gives no rule for conditionals over callables: never equal to another kind
    if isinstance(n, ast.Tuple):
        return "tuple"
    if isinstance(n, ast.List):
        return "list"
    if isinstance(n, ast.Dict):
        # a record: same keys in the same order with the same kinds of values = the same type
        keys = [k.value if isinstance(k, ast.Constant) else None for k in n.keys]
        if None in keys or len(set(map(repr, keys))) != len(keys):
            return f"dict#{id(n)}"  # no statement about such a literal's type: never equal to another
        return "dict{" + ",".join(f"{k!r}:{_kind(v)}" for k, v in zip(keys, n.values)) + "}"
    if isinstance(n, ast.BinOp):
        a, b = _kind(n.left), _kind(n.right)
        if a in ("bool", "int") and b in ("bool", "int") and isinstance(n.op, (ast.Add, ast.Sub, ast.Mult)):
            return "int"  # Python: arithmetic on truth values and ints gives an int
    return "other"


def _dict_literal(n):
    "the dict literal whose type an expression obviously has (through unary operators / equal conditionals)"
    if isinstance(n, ast.Dict):
        return n
    if isinstance(n, ast.UnaryOp):
        return _dict_literal(n.operand)
    if isinstance(n, ast.IfExp):
        return _dict_literal(n.body) or _dict_literal(n.orelse)
    if isinstance(n, (ast.Attribute, ast.Subscript)):
        d = _dict_literal(n.value)
        if d is not None:
            key = n.attr if isinstance(n, ast.Attribute) else (n.slice.value if isinstance(n.slice, ast.Constant) else None)
            for k, v in zip(d.keys, d.values):
                if isinstance(k, ast.Constant) and k.value == key:
                    return _dict_literal(v)
        if isinstance(n, ast.Subscript) and isinstance(n.value, (ast.Tuple, ast.List)) and \
                isinstance(n.slice, ast.Constant) and isinstance(n.slice.value, int) and \
                0 <= n.slice.value < len(n.value.elts):
            return _dict_literal(n.value.elts[n.slice.value])
    return None


def outside_alphabet(body):
    "forms the property does not decide (see DESIGN section 4, C10 'Outside')"
    for n in ast.walk(body):
        if isinstance(n, ast.Subscript) and isinstance(n.value, ast.Tuple) and isinstance(n.slice, ast.Constant) \
                and not (isinstance(n.slice.value, int) and not isinstance(n.slice.value, bool)):
            return "non-integer constant index into a tuple literal"
    return None


def permitted_refusals(body, op):
    "set of designed-refusal triggers present in the lambda body (by syntax only)"
    t = set()
    if op == "Where" and not isinstance(body, (ast.Compare, ast.BoolOp)):
        t.add("non-boolean-where")
    for n in ast.walk(body):
        if isinstance(n, ast.Constant) and not isinstance(n.value, LEGAL_CONST):
            t.add("non-transportable-constant")
        if isinstance(n, ast.IfExp):
            a, b = _kind(n.body), _kind(n.orelse)
            num = {"int", "float", "other"}
            if not (a == b or (a in num and b in num)):
                t.add("ifexp-branch-types")
            if ("other" in (a, b) or "not-of-unknown" in (a, b)) and a != b:
                t.add("ifexp-branch-types")  # unknown vs known type: the property does not say; either way
        if isinstance(n, ast.Subscript) and isinstance(n.value, ast.Tuple):
            s = n.slice
            if not (isinstance(s, ast.Constant) and isinstance(s.value, int) and not isinstance(s.value, bool)
                    and 0 <= s.value < len(n.value.elts)):
                t.add("tuple-literal-index")
        if isinstance(n, (ast.Subscript, ast.Attribute)) and _dict_literal(n.value) is not None:
            keys = [k.value for k in _dict_literal(n.value).keys if isinstance(k, ast.Constant)]
            if isinstance(n, ast.Attribute):
                if n.attr not in keys:
                    t.add("dict-literal-missing-key")
            else:
                if not (isinstance(n.slice, ast.Constant) and n.slice.value in keys):
                    t.add("dict-literal-missing-key")
    return t


_N = [0]


class C10(Check):
    pid = "C10"
    title = "Untyped queries pass through unchanged; refusals are explicit"
    rule = ("every expression built from the production list (attributes and method names from a pool that includes "
            "names meaningful to Python's ast objects; calls with positional/keyword/star arguments; subscripts and "
            "slices; every unary/binary/boolean/comparison operator form; conditionals; tuples, lists, sets, dicts with "
            "identifier / space / keyword / empty / digit-initial / duplicate keys; nested lambdas; literal "
            "projections in and out of range; odd constants) with EVERY parent x slot x child production pair "
            "(depth 2 complete) and depth 3 with a representative grandchild set, is given to Select, SelectMany and "
            "Where on an untyped stream as source string, as ast.Lambda and as a capture-free Python callable in a "
            "generated module; outcome must be the structurally identical lambda, or ValueError only if an independent "
            "syntactic predicate finds a designed-refusal trigger; any other exception is a violation. "
            "Non-trivial = distinct (expression, operator, mode)")
    assumptions = [
        "where a trigger is present both a refusal and an unchanged pass-through are accepted (the property names "
        "the refusals that are permitted, not which are required)",
        "a conditional whose branches are 'unknown type' vs a known non-numeric type counts as a permitted refusal",
        "the clause 'beyond the bounded depth at random' is NOT decided (sampling is another technique family)",
        "for callables: expected = ast of the source text; free names (f, g, z) are not defined in the module",
        "callable mode + a directly called lambda literal: the library inlines it like a captured helper (C05); "
        "only 'no internal error / no undesigned refusal' is required there, value equality is C05's",
        "a non-integer constant index into a tuple literal ((a, b)[1j]) is outside the alphabet",
        "a missing-key lookup on a dict literal seen through a unary operator or conditional is a permitted refusal",
    ]

    def spaces(self, tier):
        Q = tier == "quick"
        reps = ["attr.value", "neg", "add", "gt", "tuple2", "dict2", "sub0", "meth1"] if Q else [p[0] for p in PRODS]
        return [Space("expressions", {"productions": len(PRODS), "leaves": LEAVES, "depth2": "complete pairs",
                                      "depth3_grandchildren": len(reps)},
                      (lambda reps=reps: sorted(gen_sources(reps).keys())), runner="run_expr"),
                Space("nested-records", {"inner_shapes": 5, "lookups": "both levels, subscript / attribute spelling mixed, present and absent keys",
                                         "position": "the other record before / after"}, nested_records, runner="run_expr")]

    def run_expr(self, src):
        from func_adl import EventDataset

        class DS(EventDataset):
            async def execute_result_async(self, a, title=None):
                return a

        res = {"n": 0, "nt": [], "oc": [], "tags": {}, "viol": []}
        lam_src = f"lambda e: {src}"
        try:
            want_lam = ast.parse(lam_src, mode="eval").body
        except SyntaxError:
            raise RuntimeError(f"harness generated invalid syntax: {lam_src}")
        want = ast.dump(want_lam)
        walrus = any(isinstance(n, ast.NamedExpr) for n in ast.walk(want_lam))
        called_lambda = any(isinstance(n, ast.Call) and isinstance(n.func, ast.Lambda) for n in ast.walk(want_lam))
        if outside_alphabet(want_lam.body):
            res["oc"].append("outside-alphabet")
            return res
        for op in ("Select", "SelectMany", "Where"):
            trig = permitted_refusals(want_lam.body, op)
            for mode in ("str", "ast", "call", "astnp"):
                if mode == "call" and walrus:
                    continue
                if mode == "astnp" and not (trig or len(src) < 40):
                    continue  # hand-built ASTs (no position attributes): the refusal paths and the small expressions
                canon = f"{op}|{mode}|{src}"
                res["n"] += 1
                res["nt"].append(canon)
                ds = DS()
                try:
                    if mode == "str":
                        s = getattr(ds, op)(lam_src)
                    elif mode == "ast":
                        s = getattr(ds, op)(copy.deepcopy(want_lam))
                    elif mode == "astnp":
                        bare = copy.deepcopy(want_lam)
                        for n_ in ast.walk(bare):
                            for at in ("lineno", "col_offset", "end_lineno", "end_col_offset"):
                                if hasattr(n_, at):
                                    delattr(n_, at)
                        s = getattr(ds, op)(bare)
                    else:
                        _N[0] += 1
                        fn = f"<c10mod{_N[0]}>"
                        text = ("e = 2.718281828\ny = 'a module global'\n"
                                f"def build(ds):\n    return ds.{op}(lambda e: {src})\n")
                        linecache.cache[fn] = (len(text), None, text.splitlines(True), fn)
                        g = {}
                        exec(compile(text, fn, "exec"), g)
                        s = g["build"](ds)
                        del linecache.cache[fn]
                except ValueError as e:
                    res["oc"].append("refused:" + ",".join(sorted(trig)) if trig else "refused-without-trigger")
                    if not trig:
                        res["viol"].append({"kind": "refused-valid-expression", "canon": canon, "msg": str(e)[:160]})
                    continue
                except Exception as e:
                    res["oc"].append("internal:" + type(e).__name__)
                    res["viol"].append({"kind": f"internal-error:{type(e).__name__}", "canon": canon, "msg": str(e)[:160]})
                    continue
                got = s.query_ast.args[1]
                if mode == "call" and called_lambda:
                    # a directly called lambda literal is inlined exactly like a captured helper (C05);
                    # structure is not prescribed here, equality of value is checked under C05
                    res["oc"].append("called-lambda-in-callable")
                elif ast.dump(got) != want:
                    res["oc"].append("changed")
                    res["viol"].append({"kind": f"lambda-changed:{mode}", "canon": canon,
                                        "msg": f"emitted {ast.unparse(got)[:150]!r} for {lam_src[:150]!r}"})
                else:
                    res["oc"].append("unchanged" + (":trigger-present" if trig else ""))
        res["oc"] = sorted(set(res["oc"]))
        return res


# expressions whose treatment could depend on what was processed before (type caches keyed too coarsely)
PAIR_MENU = [
    "{'a': 'x', 'b': e.y}", "{'a': 1, 'b': e.z}['a'] if e.c else 2", "{'a': 1.5, 'b': e.z}['a'] if e.c else 2.5",
    "{'a': 'x', 'b': e.z}['a'] if e.c else 'y'", "{'o': {'a': 1}}.o.a if e.c else 2", "{'o': {'a': 's'}}.o.a if e.c else 't'",
    "{'a': e.x}.a", "({'a': 1}, 2)[0]", "{'a': (e.x > 1)}.a if e.c else (e.y > 2)", "{'a': 1}.a + 1",
    "{'b': 1, 'a': 's'}.a if e.c else 't'", "-e.x", "e.m(1, k=2)", "(e.x, e.y)[0]", "{'a': True}['a'] and e.x > 1",
]


SETUPS = [
    lambda DS: DS().Select("lambda e: e.pt > 30").Where("lambda good: good"),
    lambda DS: DS().Select("lambda e: {'eta': e.x, 'n': 1}").Select("lambda rec: rec.eta"),
    lambda DS: DS().Select("lambda e: (e.x, 's')").Select("lambda tup: tup[1]"),
    lambda DS: DS().Select("lambda e: 1.5").Select("lambda num: num + 1").Where("lambda num: num > 1"),
]
# the same lambda TEXT used on a typed stream first (whose type following fills defaults in, also in nested lambdas)
TYPED_TEXTS = ["e.Jets().Select(lambda j: j.pt())", "e.met()", "(e.Jets().Count(), e.met(scale=2.0))"]


def _typed_setup(k):
    def run(DS):
        from typing import Iterable

        class Jet:
            def pt(self, unit: float = 1.0) -> float: ...

        class Event:
            def Jets(self, name: str = "AntiKt4") -> Iterable[Jet]: ...

            def met(self, scale: float = 1.0) -> float: ...

        DS(Event).Select(f"lambda e: {TYPED_TEXTS[k]}")
    return run


SETUPS += [_typed_setup(k) for k in range(len(TYPED_TEXTS))]
AFTER_SETUP = ["rec.other + e.eta", "good.x", "tup[5]", "num.y if e.c else e.d", "rec['zz']", "e.f(good, rec, tup, num)"] + TYPED_TEXTS + \
    ["{'a': {'p': e.x}}", "{'a': {'q': e.y}}['a']['q']", "{'a': {'q': e.y}}.a.q", "{'a': {'p': 1.5}}['a']['p'] if e.c else 2.5"]


def _run_setup(self, k):
    from func_adl import EventDataset

    class DS(EventDataset):
        def __init__(self, item_type=None):
            super().__init__() if item_type is None else super().__init__(item_type)

        async def execute_result_async(self, a, title=None):
            return a

    SETUPS[k](DS)
    return {"n": 1, "nt": [], "oc": ["setup"], "tags": {}, "viol": []}


def _pair_menu(self, tier):
    return [("expressions", "run_expr", s) for s in PAIR_MENU + AFTER_SETUP] + \
        [("setup", "run_setup", k) for k in range(len(SETUPS))]


C10.run_setup = _run_setup


C10.pair_menu = _pair_menu
CHECK = C10()
