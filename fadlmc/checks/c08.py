"""C08 - type following yields the declared types."""
import dataclasses
from typing import Any

from .. import alpha, bind, models
from ..core import Check, Space

NAMES = ("e", "j", "t", "u", "w")
NUM = ("int", "float")


def is_seq(t):
    return models.elem(t) is not None


def promote(a, b, op):
    if "Any" in (a, b):
        return "Any"
    if "float" in (a, b) or op == "/":
        return "float"
    return "int"


class Gen:
    def __init__(self, desc, prods):
        self.d, self.p, self.memo = desc, prods, {}

    def methods(self, t):
        if isinstance(t, tuple) and t[0] in ("Obj", "ItObj"):
            return self.d.get(t[1], [])
        return []

    def gen(self, ctx, n):
        key = (ctx, n)
        if key not in self.memo:
            self.memo[key] = list(self._gen(ctx, n))
        return self.memo[key]

    def _gen(self, ctx, n):
        P = self.p
        depth = len(ctx)
        if n == 1:
            for name, t in ctx:
                yield (t, name)
            if "const" in P:
                yield ("int", "1")
                yield ("float", "1.5")
            return
        m = n - 1
        for t, x in self.gen(ctx, m):
            for mname, rt in self.methods(t):
                yield (rt, f"{x}.{mname}()")
            if isinstance(t, tuple) and t[0] == "Obj" and (t[1] + ".fields") in self.d:
                for fname, ft in self.d[t[1] + ".fields"]:
                    yield (ft, f"{x}.{fname}")
            if t == "Any" and "anyattr" in P:
                yield ("Any", f"{x}.foo()")
            e = models.elem(t)
            if e is not None:
                yield (e, f"{x}.First()")
                yield ("int", f"{x}.Count()")
                if "len" in P:
                    yield ("int", f"len({x})")
                    yield (e, f"{x}[0]")
                for mname, rt in self.d.get("seq_methods", []):
                    yield (e if rt == "ELEM" else rt, f"{x}.{mname}()")
            if t in NUM and "neg" in P:
                yield (t, f"(-{x})")
            if t == "bool" and "not" in P:
                yield ("bool", f"(not {x})")
            if isinstance(t, tuple) and t[0] == "Dic":
                for k, ft in t[1]:
                    yield (ft, f"{x}.{k}")
                    yield (ft, f"{x}['{k}']")
        if m >= 2:
            for n1 in range(1, m):
                n2 = m - n1
                for t1, a in self.gen(ctx, n1):
                    e = models.elem(t1)
                    if e is not None and depth < len(NAMES):
                        v = NAMES[depth]
                        for t2, b in self.gen(ctx + ((v, e),), n2):
                            yield (("It", t2), f"{a}.Select(lambda {v}: {b})")
                            if t2 == "bool":
                                yield (("It", e), f"{a}.Where(lambda {v}: {b})")
                            if is_seq(t2) and "selectmany" in P:
                                yield (("It", models.elem(t2)), f"{a}.SelectMany(lambda {v}: {b})")
                    if t1 in NUM or (t1 == "Any" and "anyarith" in P):
                        for t2, b in self.gen(ctx, n2):
                            if t2 in NUM or (t2 == "Any" and "anyarith" in P):
                                for op in ("+", "*", "/") + (("-", "//", "%") if "moreops" in P else ()):
                                    yield (promote(t1, t2, op), f"({a} {op} {b})")
                                yield ("bool", f"({a} > {b})")
                    if t1 in NUM and "numbool" in P:
                        # and / or of two numbers: the property says and/or give bool
                        for t2, b in self.gen(ctx, n2):
                            if t2 == t1:
                                yield ("bool", f"({a} and {b})")
                                yield ("bool", f"({a} or {b})")
                    if t1 == "bool":
                        for t2, b in self.gen(ctx, n2):
                            if t2 == "bool":
                                yield ("bool", f"({a} and {b})")
                                yield ("bool", f"({a} or {b})")
                    if "dict" in P and t1 != "bool":
                        for t2, b in self.gen(ctx, n2):
                            if not (isinstance(t1, tuple) and t1[0] == "Dic") and not (isinstance(t2, tuple) and t2[0] == "Dic"):
                                yield (("Dic", (("k", t1), ("l", t2))), f"{{'k': {a}, 'l': {b}}}")
        if m >= 3 and "ifexp" in P:
            for n1 in range(1, m - 1):
                for n2 in range(1, m - n1):
                    n3 = m - n1 - n2
                    for t1, a in self.gen(ctx, n1):
                        for t2, c in self.gen(ctx, n2):
                            if t2 != "bool":
                                continue
                            for t3, b in self.gen(ctx, n3):
                                if t1 == t3 and not isinstance(t1, tuple):
                                    yield (t1, f"({a} if {c} else {b})")
                                elif t1 in NUM and t3 in NUM:
                                    yield ("float", f"({a} if {c} else {b})")


def type_problem(lib, want, g):
    "None if the library's type matches what the annotations imply, else a description"
    if want == "Any":
        return None if lib is Any else f"{lib!r} for an expression of unknown type"
    if isinstance(want, str):
        py = models.to_py(want, g)
        return None if lib is py else f"{lib!r} != {py!r}"
    if want[0] == "Obj":
        py = models.to_py(want, g)
        return None if lib == py else f"{lib!r} != {py!r}"
    if want[0] in ("It", "ItObj"):
        le = models.py_elem(lib)
        if le is None:
            return f"{lib!r} is not an iterable of {want[1 if want[0] == 'It' else 2]!r}"
        return type_problem(le, models.elem(want), g)
    if want[0] == "Rec":
        # a constructor call: a record with the class's fields (the class itself or the record type built for it)
        import typing

        cls = g[want[1]]
        if lib is cls:
            return None
        if not dataclasses.is_dataclass(lib):
            return f"{lib!r} is not a record type for {cls!r}"
        mine, theirs = typing.get_type_hints(lib), typing.get_type_hints(cls)
        if set(mine) != set(theirs):
            return f"fields {sorted(mine)} != {sorted(theirs)}"
        for k in mine:
            le, te = models.py_elem(mine[k]), models.py_elem(theirs[k])
            if (le is None) != (te is None) or (le is None and mine[k] is not theirs[k]) or (le is not None and le != te):
                return f"field {k}: {mine[k]!r} != {theirs[k]!r}"
        return None
    if want[0] == "Dic":
        if not dataclasses.is_dataclass(lib):
            return f"{lib!r} is not a record type for {want!r}"
        import typing

        hints = typing.get_type_hints(lib)
        if list(hints) != [k for k, _ in want[1]]:
            return f"fields {list(hints)} != {[k for k, _ in want[1]]}"
        for k, ft in want[1]:
            p = type_problem(hints[k], ft, g)
            if p:
                return f"field {k}: {p}"
        return None
    return f"unknown expected type {want!r}"


FULL = ("const", "len", "neg", "not", "selectmany", "dict", "ifexp", "anyattr", "anyarith", "numbool")
OPS = ("const", "moreops")


# (operator, body, renamings, type the annotations imply)   "__refuse__": the call must raise ValueError
WRITTEN = [
    ("Select", "(e.a() > 1) + (e.n() > 2)", (), "int"), ("Select", "e.flag() * e.flag()", (), "int"), ("Select", "e.flag() - e.flag()", (), "int"),
    ("Select", "e.flag() // e.flag()", (), "int"), ("Select", "e.flag() % e.flag()", (), "int"), ("Select", "e.flag() / e.flag()", (), "float"),
    ("Select", "e.flag() + e.n()", (), "int"), ("Select", "e.flag() + e.a()", (), "float"), ("Select", "e.jets().Select(lambda j: j.good() + j.good())", (), ("It", "int")),
    ("Where", "e.flag() + e.flag()", (), "int"), ("Where", "(e.a() > 1) * (e.n() > 2)", (), "int"),
    ("Select", "e.n() and e.n()", (), "bool"), ("Select", "e.a() or 0.5", (), "bool"), ("Select", "e.name() or 'x'", (), "bool"),
    ("Select", "not (e.n() and e.n())", (), "bool"), ("Where", "e.n() and e.n()", (), "bool"), ("Where", "e.a() or e.a()", (), "bool"),
    ("Select", "e.jets().Where(lambda j: j.ntrk() and j.ntrk()).Count()", (), "int"),
    ("Select", "(e.n() and e.n()) if e.flag() else (e.flag() and e.flag())", (), "bool"),
    ("Select", "e.jets().Where(lambda j: j.pt())", (), "__refuse__"), ("Select", "e.jets().Where(lambda j: j.ntrk()).Count()", (), "__refuse__"),
    ("Select", "e.jets().Select(lambda j: j.trks().Where(lambda t: t.q()))", (), "__refuse__"),
    ("Select", "e.jets().Where(lambda j: j.trks()).Count()", (), "__refuse__"), ("Where", "e.jets().Where(lambda j: j.pt()).Count() > 1", (), "__refuse__"),
    ("SelectMany", "e.jets().Where(lambda j: j.pt() + 1)", (), "__refuse__"),
    ("Select", "e.jets().Where(lambda j: j.good()).Select(lambda j: j.trks().Where(lambda t: t.q() + 1).Count())", (), "__refuse__"),
]


class C08(Check):
    pid = "C08"
    title = "Type following yields the declared types"
    rule = ("six class models (plain; 3-level inheritance; Generic[T] containers with generic and closed subclasses; "
            "custom Iterable subclasses incl. a generic one and a closed subclass of it; a registered collection class "
            "adding its own operators; a dataclass result type) x every well-typed expression of the typed grammar up "
            "to the stated size over them (method calls, Select/Where/SelectMany/First/Count/len/[0] on sequences at "
            "any nesting depth, + * / unary minus, comparisons, and/or/not, conditionals, dict construction and field "
            "access by attribute and key, dataclass fields, methods without return annotation) x the three stream "
            "operators, and operator sequences of length <= K. The generator knows each expression's type by "
            "construction; stream.item_type and the type returned for the lambda body must match it (sequences are "
            "compared by element type), a non-boolean Where must raise ValueError. Non-trivial = distinct (model, "
            "operator sequence)")
    assumptions = [
        "a sequence-typed result is compared by 'is an iterable with element type X' (Iterable[Jet] and a custom "
        "iterable of Jet are not distinguished where the property only fixes the element type)",
        "tuples/lists as item types are outside (the follower returns Any by design, the property lists no rule)",
        "a Where filter of unknown type (method without return annotation) may be accepted or refused",
    ]

    def spaces(self, tier):
        Q = tier == "quick"
        out = []
        for mname in models.MODELS:
            n = 5 if Q else 6
            out.append(Space(f"{mname}: bodies<={n}", {"model": mname, "body_size": n, "stages": 1},
                             (lambda mname=mname, n=n: self._single(mname, n)), runner="run_chain"))
            out.append(Space(f"{mname}: nested-then-outer", {"model": mname, "shape": "(A op B), A contains a nested lambda, "
                             "B uses the outer parameter; parameter names distinct and all equal"},
                             (lambda mname=mname: self._combos(mname, 5 if Q else 6)), runner="run_chain"))
            if mname == "plain":
                out.append(Space("plain: every arithmetic operator", {"operators": "+ - * / // %", "body_size": 4 if Q else 5},
                                 (lambda Q=Q: self._arith(4 if Q else 5)), runner="run_chain"))
            if mname == "plain":
                out.append(Space("plain: parameters named like registered functions",
                                 {"names": "abs, len (built in) and a func_adl_callable function; at lambda depth 1 and 2",
                                  "body_size": 4 if Q else 5},
                                 (lambda Q=Q: self._fnames(4 if Q else 5)), runner="run_chain"))
            if mname == "dataclass":
                out.append(Space("dataclass: constructor calls in queries",
                                 {"shape": "Info(...) with every split into positional / keyword arguments and every order "
                                  "of the keywords, then field access in the same lambda or in the next operator"},
                                 self._ctors, runner="run_chain"))
            if mname in ("plain", "generic"):
                out.append(Space(f"{mname}: metadata operators between stages",
                                 {"inserted": "QMetaData({a:1}) twice (the second adds nothing new), QMetaData({}), MetaData({m:1}) after "
                                  "every stage", "stages": "1..2", "body_size": 3},
                                 (lambda mname=mname: [(m_, st, "md") for m_, st in self._chains(mname, 3, 2)] +
                                  [(m_, st, "md") for m_, st in self._single(mname, 3)]), runner="run_chain"))
            if mname == "plain":
                out.append(Space("plain: written-out cases", {"cases": "arithmetic on truth values (int, / gives float), and / or of numbers and "
                                                                        "strings (bool), not, nested Where with a non-boolean filter at depth 1..2 (ValueError)"},
                                 (lambda: [("plain", (c,)) for c in WRITTEN]), runner="run_chain"))
            k = 3 if Q else 4
            out.append(Space(f"{mname}: chains K<=3 bodies<={k}", {"model": mname, "body_size": k, "stages": "2..3"},
                             (lambda mname=mname, k=k: self._chains(mname, k, 3 if not Q else 2)), runner="run_chain"))
        return out

    def _single(self, mname, n):
        g, d = models.load(mname)
        gen = Gen(d, FULL)
        root = ("Obj", d["root"])
        out = []
        for size in range(2, n + 1):
            for t, src in gen.gen((("e", root),), size):
                for op in self._ops_for(t):
                    out.append((mname, ((op, src),)))
        return out

    def _arith(self, n):
        g, d = models.load("plain")
        gen = Gen(d, OPS)
        out = []
        for size in range(3, n + 1):
            for t, src in gen.gen((("e", ("Obj", "Ev")),), size):
                if any(o in src for o in (" - ", " // ", " % ")):
                    out.append(("plain", (("Select", src),)))
        return out

    def _fnames(self, n):
        g, d = models.load("plain")
        gen = Gen(d, ("const",))
        out = []
        for size in range(2, n + 1):
            for t, src in gen.gen((("e", ("Obj", "Ev")),), size):
                for ren in ((("e", "abs"),), (("e", "len"),), (("e", "fn"),), (("j", "abs"),), (("j", "fn"),),
                            (("e", "len"), ("j", "abs"))):
                    if any(o == "j" for o, _ in ren) and "lambda j" not in src:
                        continue
                    for op in self._ops_for(t):
                        out.append(("plain", ((op, src, ren),)))
        return out

    def _ctors(self):
        import itertools

        vals = {"x": ("e.a()", "float"), "k": ("e.n()", "int"), "js": ("e.jets()", ("It", ("Obj", "Jet")))}
        order = ("x", "k", "js")
        out = []
        for npos in range(0, 4):
            pos = [vals[f][0] for f in order[:npos]]
            for perm in itertools.permutations(order[npos:]):
                call = "Info(" + ", ".join(pos + [f"{f}={vals[f][0]}" for f in perm]) + ")"
                for f in order:
                    out.append(("dataclass", (("Select", f"{call}.{f}", (), vals[f][1]),)))
                    out.append(("dataclass", (("Select", call, (), ("Rec", "Info")), ("Select", f"e.{f}", (), vals[f][1]))))
                out.append(("dataclass", (("Select", f"{call}.js.Select(lambda j: j.pt())", (), ("It", "float")),)))
                out.append(("dataclass", (("Where", f"({call}.x > {call}.k)", (), "bool"),)))
        return out

    def _combos(self, mname, n):
        g, d = models.load(mname)
        gen = Gen(d, ("const",))
        root = ("Obj", d["root"])
        A, B = [], []
        for size in range(2, n + 1):
            for t, src in gen.gen((("e", root),), size):
                if t in NUM and "lambda" in src:
                    A.append(src)
                elif t in NUM and size <= 2 and src.startswith("e."):
                    B.append(src)
        out = []
        for a in A:
            for b in B:
                for body in (f"({a} + {b})", f"({b} / {a})", f"{{'k': {a}, 'l': {b}}}"):
                    out.append((mname, (("Select", body),)))
                    for renamed in alpha.namings_src(f"lambda e: {body}", ("e",)):
                        rb = renamed[len("lambda e: "):]
                        if rb != body:
                            out.append((mname, (("Select", rb),)))
        return out

    def _ops_for(self, t):
        ops = ["Select", "Where"]
        if is_seq(t):
            ops.append("SelectMany")
        return ops

    def _chains(self, mname, k, K):
        g, d = models.load(mname)
        gen = Gen(d, ("const", "selectmany", "dict"))
        root = ("Obj", d["root"])
        level = [((), root)]
        out = []
        for depth in range(K):
            nxt = []
            for stages, item in level:
                for size in range(1 if depth else 2, k + 1):
                    for t, src in gen.gen((("e", item),), size):
                        if src == "e":
                            continue
                        for op in self._ops_for(t):
                            if op == "Where" and t != "bool":
                                continue
                            new_item = t if op == "Select" else (item if op == "Where" else models.elem(t))
                            st = stages + ((op, src),)
                            if depth >= 1:
                                out.append((mname, st))
                            if not (isinstance(new_item, tuple) and new_item[0] == "Dic" and depth >= 1):
                                nxt.append((st, new_item))
            # keep the frontier small: one representative per (item type) beyond depth 1
            if depth >= 1:
                seen = {}
                for st, it in nxt:
                    seen.setdefault(repr(it), (st, it))
                nxt = list(seen.values())
            level = nxt
        return out

    def run_chain(self, payload):
        from func_adl import EventDataset

        mname, stages = payload[:2]
        with_md = len(payload) > 2
        bind.reset_type_registries()
        g, d = models.load(mname)
        gen = Gen(d, FULL + ("moreops",))

        class DS(EventDataset):
            async def execute_result_async(self, a, title=None):
                return a

        res = {"n": 1, "nt": [repr(payload)], "oc": [], "tags": {}, "viol": []}
        canon = repr(payload)
        s = DS(g[d["root"]])
        item = ("Obj", d["root"])
        for i, stage in enumerate(stages):
            op, body = stage[:2]
            ren = stage[2] if len(stage) > 2 else ()
            # the body's type by construction: re-derive it from the generator (exact source match);
            # the constructor space states it (a constructor call has the type of its class)
            t = stage[3] if len(stage) > 3 else self._type_of(gen, item, body)
            lam = f"lambda e: {body}"
            if ren:
                lam = self._rename(lam, dict(ren))
                if "fn" in dict(ren).values():
                    from func_adl import func_adl_callable

                    def fn(x: float) -> float: ...

                    func_adl_callable()(fn)
            want_err = (op == "Where" and t not in ("bool", "Any")) or t == "__refuse__"
            real = "Info(" in repr(stages)
            try:
                s2 = self._apply_real(g, s, op, lam) if real else getattr(s, op)(lam)
            except ValueError as e:
                if want_err or (op == "Where" and t == "Any"):
                    res["oc"].append("refused-nonbool-where")
                    return res
                res["oc"].append("ValueError")
                res["viol"].append({"kind": "refused-well-typed-expression", "canon": canon, "msg": f"stage {i}: {e}"[:200]})
                return res
            except Exception as e:
                res["oc"].append("internal")
                res["viol"].append({"kind": f"internal-error:{type(e).__name__}", "canon": canon, "msg": f"stage {i}: {e}"[:200]})
                return res
            if want_err:
                res["oc"].append("nonbool-where-accepted")
                res["viol"].append({"kind": "non-boolean-where-accepted", "canon": canon, "msg": f"body type {t!r}"})
                return res
            new_item = t if op == "Select" else (item if op == "Where" else models.elem(t))
            try:
                prob = type_problem(s2.item_type, new_item, g)
            except Exception as e:  # the library handed back something that is not a usable type object
                prob = f"malformed type object {s2.item_type!r} ({type(e).__name__}: {e})"
            if prob:
                res["oc"].append("wrong-type")
                res["viol"].append({"kind": f"wrong-item-type:{op}", "canon": canon,
                                    "msg": f"stage {i} {op}({lam}): item_type {prob} (expected {new_item!r})"})
                return res
            s, item = s2, new_item
            if with_md:
                # operators that do not touch the items must not touch the item type either
                before_t = s.item_type
                for step in (lambda x: x.QMetaData({"a": 1}), lambda x: x.QMetaData({"a": 1}), lambda x: x.QMetaData({}),
                             lambda x: x.MetaData({"m": 1})):
                    s = step(s)
                    if s.item_type is not before_t and s.item_type != before_t:
                        res["oc"].append("wrong-type")
                        res["viol"].append({"kind": "item-type-changed-by-a-metadata-operator", "canon": canon,
                                            "msg": f"after stage {i}: {before_t!r} became {s.item_type!r}"})
                        return res
        res["oc"].append("types-ok")
        return res

    def _type_of(self, gen, item, body):
        for size in range(1, 8):
            for t, src in gen.gen((("e", item),), size):
                if src == body:
                    return t
        if "lambda" in body:
            return self._type_of_combo(gen, item, body)
        raise RuntimeError(f"harness: cannot re-derive the type of {body!r} over {item!r}")

    def _type_of_combo(self, gen, item, body):
        """(A + B), (B / A), {'k': A, 'l': B}: the type follows from the parts; a body whose nested parameters were
        renamed has the type of its canonical naming (renaming binders does not change types)"""
        import ast as _ast

        tree = _ast.parse(body, mode="eval").body

        def part_type(node):
            src = _ast.unparse(node)
            canon = self._canonical(src)
            for size in range(1, 9):
                for t, s in gen.gen((("e", item),), size):
                    if _ast.unparse(_ast.parse(s, mode="eval").body) == canon:
                        return t
            raise RuntimeError(f"harness: cannot type the part {src!r}")

        if isinstance(tree, _ast.Dict):
            return ("Dic", (("k", part_type(tree.values[0])), ("l", part_type(tree.values[1]))))
        op = "/" if isinstance(tree.op, _ast.Div) else "+"
        return promote(part_type(tree.left), part_type(tree.right), op)

    _nfile = [0]

    def _apply_real(self, g, s, op, lam):
        """the lambda as a real Python lambda written in the model's module (so the class names in it resolve the
        way they do in a user's module), source available through linecache"""
        import linecache

        self._nfile[0] += 1
        fn = f"<fadlmc-c08-{self._nfile[0]}>"
        text = f"def build(s):\n    return s.{op}(\n        {lam}\n    )\n"
        linecache.cache[fn] = (len(text), None, text.splitlines(True), fn)
        try:
            exec(compile(text, fn, "exec"), g)
            return g["build"](s)
        finally:
            linecache.cache.pop(fn, None)

    @staticmethod
    def _rename(src, mapping):
        "rename lambda parameters (and their uses) by the given map - no two binders share a name in these bodies"
        import ast as _ast

        tree = _ast.parse(src, mode="eval")
        for n in _ast.walk(tree):
            if isinstance(n, _ast.arg) and n.arg in mapping:
                n.arg = mapping[n.arg]
            elif isinstance(n, _ast.Name) and n.id in mapping:
                n.id = mapping[n.id]
        return _ast.unparse(tree)

    @staticmethod
    def _canonical(src):
        "rename nested lambda parameters back to the generator's by-depth names (e, j, t, ...)"
        import ast as _ast

        tree = _ast.parse(src, mode="eval")

        def walk(n, depth, env):
            if isinstance(n, _ast.Lambda):
                new = NAMES[depth]
                old = n.args.args[0].arg
                n.args.args[0].arg = new
                walk(n.body, depth + 1, dict(env, **{old: new}))
                return
            if isinstance(n, _ast.Name) and n.id in env:
                n.id = env[n.id]
            for c in _ast.iter_child_nodes(n):
                walk(c, depth, env)

        walk(tree.body, 1, {"e": "e"})
        return _ast.unparse(tree.body)

    def render(self, space_name, payload):
        return repr(payload)


CHECK = C08()
