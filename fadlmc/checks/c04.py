"""C04 - captured variables are frozen by value at the call, respecting scope."""
import ast
import linecache
import sys
import types

from .. import explore, refsem
from ..core import Check, Space, h64

import enum


class _Color(enum.Enum):
    RED = 1
    BLUE = 2


LEGAL = (str, int, float, bool, complex, bytes)
VALUES = {
    "int": 3, "float": 2.5, "str": "s", "bool": True, "bytes": b"b", "neg": -4, "zero": 0, "empty": "",
    "enum": _Color.BLUE, "none": None, "fraction": __import__("fractions").Fraction(1, 3), "decimal": __import__("decimal").Decimal("1.5"),
    "frozenset": frozenset({1}), "range": range(3), "list": [1, 2], "tuple": (1, 2), "dict": {"a": 1}, "object": object(), "set": {1},
}
# templates: {N} the captured NAME as written at the use site (N, K.N, K.I.N, mod.N), {B} a bare name that is
# BOUND inside the lambda and merely spelled like the captured global/closure name
TEMPLATES = {
    "use": "lambda e: (e.a, {N})",
    "use-in-nested": "lambda e: e.jets.Select(lambda j: (j.pt, {N}))",
    "use-depth2": "lambda e: e.jets.Select(lambda j: j.tr.Select(lambda t: (t.q, {N})))",
    "use-in-comp": "lambda e: [(j.pt, {N}) for j in e.jets if j.pt > 0]",
    "use-twice": "lambda e: ({N}, e.jets.Where(lambda j: j.pt > 1).Select(lambda j: ({N}, j.eta)))",
    "use-in-pycall-arg": "lambda e: (fmod.pair((e.a, {N})), 1)",
    "use-in-pycall-kw": "lambda e: (fmod.pair(e.a, k={N}), 1)",
    "use-in-pycall-nested": "lambda e: e.jets.Select(lambda j: fmod.pair(j.pt, {N}))",
    "use-in-builtin-arg": "lambda e: (len([e.a, {N}]), e.a)",
    "own-param": "lambda {B}: ({B}.a, 1)",
    "own-param-bare-in-nested": "lambda {B}: {B}.jets.Select(lambda j2: (j2.pt, {B}))",
    "own-param-bare-depth2": "lambda {B}: {B}.jets.Select(lambda j2: j2.tr.Select(lambda t2: (t2.q, {B})))",
    "own-param-bare-in-comp": "lambda {B}: [(j2.pt, {B}) for j2 in {B}.jets]",
    "nested-param-bare-depth2": "lambda e: e.jets.Select(lambda {B}: {B}.tr.Select(lambda t2: (t2.q, {B})))",
    "after-multi-for": "lambda e: ([t2.q for {B} in e.jets for t2 in {B}.tr], {N})",
    "comp-iter-same-name": "lambda e: [(e.a, {B}) for {B} in {N}]",
    "nested-param": "lambda e: e.jets.Select(lambda {B}: {B}.pt)",
    "nested-param-depth2": "lambda e: e.jets.Select(lambda j: j.tr.Select(lambda {B}: ({B}.q, j.pt)))",
    "comp-target": "lambda e: [{B}.pt for {B} in e.jets]",
    "comp-target-if": "lambda e: [{B}.pt for {B} in e.jets if {B}.pt > 1]",
    "comp-target-nested": "lambda e: e.jets.Select(lambda j: [({B}.q, j.pt) for {B} in j.tr])",
    "gen-target": "lambda e: e.jets.Select(lambda j: len(list({B}.q for {B} in j.tr)))",
    "bound-then-free": "lambda e: (e.jets.Select(lambda {B}: {B}.pt), {N})",
    "free-then-bound": "lambda e: ({N}, e.jets.Select(lambda {B}: {B}.pt))",
    "keyword-name": "lambda e: (e.met(1, {B}=2), 0)",
    "attribute-name": "lambda e: (e.{B}, 0)",
    # every KIND of parameter binds (keyword-only, *args, **kwargs, positional-only); a default value is
    # evaluated where the lambda is defined, so a captured name there is frozen while the parameter of the
    # same spelling stays a parameter; a := target is local to the lambda
    "kwonly-param": "lambda e: (lambda *, {B}: ({B}.a, 1))({B}=e)",
    "vararg-param": "lambda e: (lambda *{B}: ({B}[0].a, 1))(e)",
    "kwarg-param": "lambda e: (lambda **{B}: ({B}['k'].a, 1))(k=e)",
    "posonly-param": "lambda e: (lambda {B}, /: ({B}.a, 1))(e)",
    "nested-kwonly-param": "lambda e: e.jets.Select(lambda j2, *, {B}=1: (j2.pt, {B}))",
    "default-value-free": "lambda e: e.jets.Select(lambda j2, k2={N}: (j2.pt, k2))",
    "default-value-same-name": "lambda e: e.jets.Select(lambda j2, {B}={N}: (j2.pt, {B}))",
    "kwdefault-value-same-name": "lambda e: e.jets.Select(lambda j2, *, {B}={N}: (j2.pt, {B}))",
    "walrus-target": "lambda e: (({B} := e.a) + {B}, 1)",
    # a method of the captured value itself is called: the value is still frozen (the call stays a call)
    "method-of-number": "lambda e: (e.a, {N}.conjugate())",
    "method-of-number-nested": "lambda e: e.jets.Select(lambda j: (j.pt, {N}.conjugate() + 1))",
    "method-of-text": "lambda e: (e.a, {N}.upper(), {N}.startswith({N}))",
    # an inner binder re-uses the spelling of an outer one; the outer one is read (bare) AFTER the inner scope closed
    "shadow-then-outer-bare": "lambda {B}: ({B}.jets.Select(lambda {B}: {B}.pt), {B})",
    "shadow-comp-then-outer-bare": "lambda {B}: ([{B}.pt for {B} in {B}.jets], {B})",
    "shadow-depth2-then-outer-bare": "lambda e: e.jets.Select(lambda {B}: ({B}.tr.Select(lambda {B}: {B}.q), {B}))",
    "shadow-twice-then-outer-bare": "lambda {B}: ({B}.jets.Select(lambda {B}: {B}.tr.Select(lambda {B}: {B}.q)), {B})",
}
SOURCES = ("closure", "closure-over-global", "global", "class", "class-inherited", "nested-class", "module",
           "instance-dict", "instance-class-constant", "instance-property", "instance-getattr", "instance-slots", "namedtuple-field")

_N = [0]


def module_for(source, template, name, value, op="Select"):
    """generated module text: a build(ds) function that calls ds.<op>(<lambda>) with the lambda inline,
    one lambda per line.  The captured name is `name`."""
    use = {"closure": name, "closure-over-global": name, "global": name, "class": f"K.{name}", "class-inherited": f"K.{name}", "nested-class": f"K.I.{name}",
           "module": f"cmod.{name}"}.get(source, f"K.{name}")
    lam = TEMPLATES[template].format(N=use, B=name)
    head = ""
    if source == "global":
        head = f"{name} = VALUE\n"
    elif source == "class":
        head = f"class K:\n    {name} = VALUE\n"
    elif source == "class-inherited":
        head = f"class KBase:\n    {name} = VALUE\nclass K(KBase):\n    other = 1\n"
    elif source == "nested-class":
        head = f"class K:\n    class I:\n        {name} = VALUE\n"
    elif source == "module":
        head = "import fadlmc_c04_cmod as cmod\n"
    elif source == "instance-dict":  # K is an object (a settings holder); the value lives in the instance
        head = f"class KI:\n    def __init__(self):\n        self.{name} = VALUE\nK = KI()\n"
    elif source == "instance-class-constant":
        head = f"class KC:\n    {name} = VALUE\nK = KC()\n"
    elif source == "instance-property":
        head = f"class KP:\n    @property\n    def {name}(self):\n        return VALUE\nK = KP()\n"
    elif source == "instance-slots":  # an object without a __dict__
        head = f"class KS:\n    __slots__ = ('{name}',)\n    def __init__(self):\n        self.{name} = VALUE\nK = KS()\n"
    elif source == "namedtuple-field":
        head = f"import collections\nKN = collections.namedtuple('KN', ['{name}', 'other'])\nK = KN(VALUE, 0)\n"
    elif source == "instance-getattr":  # a wrapper that serves its settings through __getattr__
        head = (f"class KG:\n    def __getattr__(self, n):\n        if n == '{name}':\n            return VALUE\n"
                f"        raise AttributeError(n)\nK = KG()\n")
    if source == "closure-over-global":
        head = f"{name} = 'the module global of the same name'\n"
    if source in ("closure", "closure-over-global"):
        body = f"def build(ds, {name}=None):\n    {name} = VALUE\n    return ds.{op}(\n        {lam}\n    )\n"
    else:
        body = f"def build(ds):\n    return ds.{op}(\n        {lam}\n    )\n"
    return head + body, lam


def _fmod():
    "an imported module with a real Python function: calls to it stay calls by name, their arguments are still frozen"
    m = sys.modules.get("fadlmc_c04_fmod")
    if m is None:
        m = types.ModuleType("fadlmc_c04_fmod")
        exec("def pair(x, k=0):\n    return (x, k)\n", m.__dict__)
        sys.modules["fadlmc_c04_fmod"] = m
    return m


def load_module(text, value, name):
    _N[0] += 1
    fn = f"<c04mod{_N[0]}>"
    linecache.cache[fn] = (len(text), None, text.splitlines(True), fn)
    cmod = types.ModuleType("fadlmc_c04_cmod")
    setattr(cmod, name, value)
    sys.modules["fadlmc_c04_cmod"] = cmod
    g = {"VALUE": value, "len": len, "list": list, "fmod": _fmod()}
    exec(compile(text, fn, "exec"), g)
    return g, fn


class C04(Check):
    pid = "C04"
    title = "Captured variables are frozen by value at the call, respecting scope"
    state_based = False
    rule = ("(A) every combination of capture source (closure cell, module global, class constant, nested class "
            "constant, attribute of an imported module) x 20 lambda shapes (free use at depth 0/1/2, inside the positional / keyword arguments of a call to an imported module's Python function or a builtin, inside a "
            "comprehension, twice; the same spelling bound as the lambda's own parameter, a nested lambda's "
            "parameter at depth 1 and 2, a comprehension / generator target with and without filter, bound in one "
            "sub-expression and free in another, as a keyword-argument name, as an attribute name) x 14 values "
            "(transportable scalars, None, list, tuple, dict, set, object) x captured name from {v, j, e-like names "
            "used inside the lambda}; the lambda is passed as a Python callable written inline in a generated module. "
            "Oracle: the emitted lambda, evaluated by CPython in an environment WITHOUT the module's names, must equal "
            "what Python computes by calling the original callable on every dataset; a non-transportable value must "
            "raise ValueError. (B) histories up to the stated depth of derive (capturing a global, a closure cell, a "
            "class constant) / rebind / delete / execute over all live streams: every earlier stream's query and the "
            "constant delivered to the executor must stay the call-time value. Non-trivial = distinct (source, shape, "
            "value, name)")
    assumptions = [
        "None: the statement lists it as a value, the constant gate refuses it; a faithful None or ValueError both pass",
        "captured callables are C05; Enum members / imported functions are kept by name on purpose (not values)",
    ]

    def spaces(self, tier):
        Q = tier == "quick"

        def cases():
            out = []
            for source in SOURCES:
                for tname in TEMPLATES:
                    for vname in VALUES:
                        for name in (("v", "j") if Q else ("v", "j", "t", "a", "pt")):
                            if "{N}" not in TEMPLATES[tname] and source not in ("closure", "closure-over-global", "global"):
                                continue  # a bound spelling can only collide with a bare (closure/global) name
                            if name in ("j", "t") and "{B}" not in TEMPLATES[tname] and \
                                    f"lambda {name}" in TEMPLATES[tname] and source in ("closure", "closure-over-global", "global"):
                                continue  # the template itself binds that name around the use: not a capture
                            if tname == "after-multi-for" and source not in ("closure", "closure-over-global", "global"):
                                continue
                            if tname == "comp-iter-same-name" and (source not in ("closure", "closure-over-global", "global") or
                                                                   vname not in ("list", "tuple", "dict", "set")):
                                continue  # only a real collection can be iterated; it must then be refused
                            if tname == "attribute-name" and name not in ("a", "b", "v", "j"):
                                continue
                            if tname == "keyword-name" and name not in ("t", "v", "j"):
                                continue
                            if tname == "attribute-name" and name in ("v", "j"):
                                continue
                            if tname.startswith("method-of-number") and vname not in ("int", "float", "bool", "neg", "zero"):
                                continue
                            if tname == "method-of-text" and vname not in ("str", "empty", "bytes"):
                                continue
                            out.append((source, tname, vname, name))
            return out
        depth = 4 if Q else 5
        return [Space("programs", {"sources": SOURCES, "shapes": list(TEMPLATES), "values": list(VALUES)}, cases,
                      runner="run_prog"),
                Space(f"histories<={depth}", {"depth": depth, "ops": list(HModel.ALL) + ["rebind", "delete", "execute"]},
                      (lambda depth=depth: [("hist", depth, (op,)) for op in HModel().enabled(HModel().fresh())]),
                      runner="run_hist")]

    # ------------------------------------------------------------------ A
    def run_prog(self, payload):
        from func_adl import EventDataset

        source, tname, vname, name = payload
        value = VALUES[vname]
        canon = repr(payload)
        res = {"n": 0, "nt": [canon], "oc": [], "tags": {}, "viol": []}
        text, lam_src = module_for(source, tname, name, value)
        if tname == "keyword-name" and name != "t":
            return {"n": 0, "nt": [], "oc": ["skipped"], "tags": {}, "viol": []}
        g, fn = load_module(text, value, name)

        class DS(EventDataset):
            async def execute_result_async(self, a, title=None):
                return a

        uses_value = "{N}" in TEMPLATES[tname]
        if uses_value and source in ("closure", "closure-over-global", "global") and \
                tname not in ("comp-iter-same-name", "after-multi-for") and \
                name not in refsem.free_names(ast.parse(lam_src, mode="eval").body):
            return {"n": 0, "nt": [], "oc": ["skipped: the shape itself binds that name"], "tags": {}, "viol": []}
        transportable = isinstance(value, LEGAL)
        try:
            s = g["build"](DS())
        except ValueError as e:
            res["oc"].append("ValueError")
            if not uses_value:
                res["viol"].append({"kind": "refused-lambda-that-captures-nothing", "canon": canon, "msg": f"{lam_src}: {e}"[:200]})
            elif transportable:
                res["viol"].append({"kind": "refused-transportable-value", "canon": canon, "msg": f"{lam_src}: {e}"[:200]})
            return res
        except Exception as e:
            res["oc"].append("raised")
            res["viol"].append({"kind": f"raised:{type(e).__name__}", "canon": canon, "msg": f"{lam_src}: {e}"[:200]})
            return res
        finally:
            linecache.cache.pop(fn, None)
        emitted = s.query_ast.args[1]
        if uses_value and not transportable and value is not None:
            res["oc"].append("non-transportable-accepted")
            res["viol"].append({"kind": "non-transportable-value-accepted", "canon": canon,
                                "msg": f"{lam_src} -> {ast.dump(emitted)[:200]}"})
            return res
        # original callable, as Python runs it (bindings as they were at the call)
        orig = eval(compile(ast.parse(lam_src, mode="eval"), "<orig>", "eval"),
                    dict(g, **({name: value} if source in ("closure", "closure-over-global") else {}), cmod=sys.modules["fadlmc_c04_cmod"]))
        try:
            fq = refsem.compile_query(ast.Call(ast.Name("Select", ast.Load()), [ast.Name("ds", ast.Load()), emitted], []),
                                      extra_env={"list": list, "fmod": _fmod()})
        except Exception as e:
            res["viol"].append({"kind": "emitted-lambda-uncompilable", "canon": canon, "msg": str(e)[:150]})
            return res
        free = refsem.free_names(emitted) - {"len", "list", "fmod"}
        if free:
            res["oc"].append("unfrozen")
            res["viol"].append({"kind": "name-left-unfrozen", "canon": canon,
                                "msg": f"{sorted(free)} free in {ast.unparse(emitted)[:200]!r}"})
            return res
        if tname == "after-multi-for":
            consts = [n.value for n in ast.walk(emitted) if isinstance(n, ast.Constant)]
            if not any(type(c) is type(value) and c == value for c in consts):
                res["viol"].append({"kind": "captured-value-not-in-emitted-lambda", "canon": canon, "msg": ast.unparse(emitted)[:200]})
            res["oc"].append("frozen (structural check only: two for clauses are not C06's subject)")
            return res
        nok = 0
        for d in refsem.datasets(False):
            try:
                want = ("ok", refsem.norm(refsem.Seq(d).Select(orig)))
            except Exception as e:
                continue
            got = refsem.evaluate(fq, d)
            res["n"] += 1
            nok += 1
            if got != want:
                res["oc"].append("mismatch")
                try:
                    shown = ast.unparse(emitted)
                except Exception:
                    shown = ast.dump(emitted)
                res["viol"].append({"kind": "emitted-lambda-computes-something-else", "canon": canon,
                                    "msg": f"{lam_src}  emitted as  {shown[:200]} : python {str(want[1])[:100]} emitted {str(got[1])[:100]}"})
                return res
        if not nok:
            raise RuntimeError(f"harness: original lambda fails on every dataset: {lam_src}")
        res["oc"].append("frozen-faithfully" if uses_value else "bound-name-untouched")
        return res

    # ------------------------------------------------------------------ B
    def run_hist(self, payload):
        _, depth, prefix = payload
        m = HModel()
        prefix = tuple(tuple(op) if isinstance(op, list) else op for op in prefix)
        r = explore.explore(m, prefix, depth)
        res = {"n": r["trans"], "nt": [f"hist|{prefix}|{i}" for i in range(min(3, r["trans"]))], "oc": sorted(r["outcomes"]),
               "tags": dict(r["ops"]), "viol": [],
               "sample_text": f"subtree below {prefix}: {len(r['states'])} states, {r['trans']} transitions"}
        res["tags"]["hist_states"] = len(r["states"])
        res["tags"]["hist_transitions"] = r["trans"]
        for v in r["viol"]:
            res["viol"].append({"kind": v["kind"], "canon": repr(v["hist"]), "msg": v["msg"]})
        return res

    def render(self, space_name, payload):
        return repr(payload)


HSRC = '''
v = 1
class K:
    c = 10
def mk():
    x = 100
    def derive_closure(s):
        return s.Select(
            lambda e: (e.a, x)
        )
    def setx(n):
        nonlocal x
        x = n
    def helper_c(q):
        return (q, x)
    def derive_helper_closure(s):
        return s.Select(
            lambda e: helper_c(e.a)
        )
    return derive_closure, setx, derive_helper_closure
derive_closure, setx, derive_helper_closure = mk()
def mkb():
    def hb1(q):
        return hb2(q) + v
    def hb0(q):
        return hb1(q)
    def derive_hb(s):
        return s.Select(
            lambda e: hb0(e.a)
        )
    def fix_hb():
        nonlocal hb2
        hb2 = (lambda q: q * 3)
    return derive_hb, fix_hb
    hb2 = None  # never reached: it makes hb2 a variable of mkb that has no value until fix_hb() gives it one
derive_hb, fix_hb = mkb()
def helper(q):
    return (q, v)
def derive_helper(s):
    return s.Select(
        lambda e: helper(e.a)
    )
def derive_global(s):
    return s.Select(
        lambda e: (e.a, v)
    )
def derive_class(s):
    return s.Where(
        lambda e: e.a > K.c
    )
def by_name(e):
    return (e.a, v)
def derive_named(s):
    return s.Select(by_name)
'''


class HWorld:
    def __init__(self):
        from func_adl import EventDataset

        _N[0] += 1
        fn = f"<c04hist{_N[0]}>"
        linecache.cache[fn] = (len(HSRC), None, HSRC.splitlines(True), fn)
        self.fn = fn
        self.g = {}
        exec(compile(HSRC, fn, "exec"), self.g)
        w = self
        self.log = []

        class DS(EventDataset):
            async def execute_result_async(self, a, title=None):
                w.log.append(a)
                return len(w.log)

        self.streams = [DS()]
        self.expect = [None]  # per stream: list of constants expected in its query, in derivation order
        self.consts = [[]]
        self.model = {"v": 1, "x": 100, "c": 10}
        self.alive = {"v": True}
        self.fixed = False
        self.snap = [ast.dump(self.streams[0].query_ast)]
        self.last = None


def _consts(a):
    return [n.value for n in ast.walk(a) if isinstance(n, ast.Constant)]


class HModel:
    NEW = {"v": 2, "x": 200, "c": 20}
    ALL = ("derive-global", "derive-named", "derive-closure", "derive-class", "derive-helper", "derive-helper-closure")
    VAR = {"derive-global": "v", "derive-closure": "x", "derive-class": "c", "derive-named": "v", "derive-helper": "v",
           "derive-helper-closure": "x", "derive-hb": "v"}

    def __init__(self, derives=ALL, delete=True, broken=False):
        self.derives, self.delete, self.broken = tuple(derives), delete, broken

    def fresh(self):
        return HWorld()

    def enabled(self, w):
        ops = []
        for i in range(len(w.streams)):
            for d in self.derives:
                if self.VAR[d] != "v" or w.alive["v"]:
                    ops.append((d, i))
            ops.append(("execute", i))
            if self.broken and w.alive["v"]:
                ops.append(("derive-hb", i))
        if self.broken and not w.fixed:
            ops.append(("fix-hb", 0))
        for var in sorted({self.VAR[d] for d in self.derives}):
            if var != "v" or w.alive["v"]:
                ops.append(("rebind", var))
        if w.alive["v"] and self.delete and "v" in {self.VAR[d] for d in self.derives}:
            ops.append(("delete", "v"))
        return ops

    def op_name(self, op):
        return op[0]

    def outcomes(self, w):
        return {w.last or "x"}

    def key(self, w):
        return explore.heap_key([s.query_ast for s in w.streams], [None] * len(w.streams), lambda v: "ds") + \
            repr(sorted(w.model.items())) + repr(w.alive) + repr(w.fixed)

    def apply(self, w, op):
        kind, arg = op
        w.last = kind
        viol = []
        if kind == "fix-hb":
            w.g["fix_hb"]()
            w.fixed = True
        elif kind == "derive-hb" and not w.fixed:
            # the helper's helper has no value yet: the call fails (or leaves the helper as a call by name - not prescribed);
            # either way it must leave no trace in the library that changes what LATER calls emit
            try:
                w.g["derive_hb"](w.streams[arg])
                w.last = "derive-hb-tolerated"
            except Exception:
                w.last = "derive-hb-failed"
        elif kind.startswith("derive"):
            fn = kind.replace("-", "_")
            var = self.VAR[kind]
            try:
                s = w.g[fn](w.streams[arg])
            except Exception as e:
                return [{"kind": f"derive-raised:{type(e).__name__}", "msg": f"{op}: {e}"[:150]}]
            w.streams.append(s)
            w.consts.append(w.consts[arg] + [w.model[var]])
            w.snap.append(ast.dump(s.query_ast))
            got = [c for c in _consts(s.query_ast) if c in (1, 2, 100, 200, 10, 20)]
            if sorted(got) != sorted(w.consts[-1]):
                viol.append({"kind": "constant-is-not-the-call-time-value",
                             "msg": f"{op}: constants {got}, call-time values {w.consts[-1]}"})
        elif kind == "rebind":
            nv = self.NEW[arg] if w.model[arg] != self.NEW[arg] else {"v": 1, "x": 100, "c": 10}[arg]
            w.model[arg] = nv
            if arg == "v":
                w.g["v"] = nv
            elif arg == "x":
                w.g["setx"](nv)
            else:
                w.g["K"].c = nv
        elif kind == "delete":
            del w.g["v"]
            w.alive["v"] = False
        elif kind == "execute":
            n0 = len(w.log)
            w.streams[arg].value()
            a = w.log[-1]
            got = [c for c in _consts(a) if c in (1, 2, 100, 200, 10, 20)]
            if len(w.log) != n0 + 1 or sorted(got) != sorted(w.consts[arg]):
                viol.append({"kind": "executor-received-other-constants",
                             "msg": f"{op}: got {got}, call-time values {w.consts[arg]}"})
        for j, s in enumerate(w.streams):
            if ast.dump(s.query_ast) != w.snap[j]:
                viol.append({"kind": "earlier-query-changed-after-" + kind, "msg": f"stream #{j} after {op}"})
                break
        return viol


CHECK = C04()
