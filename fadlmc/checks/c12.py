"""C12 - value() runs exactly the stream's query on its own dataset, once."""
import ast

from .. import explore, sched, streams
from ..core import Check, Space, h64
from .c11 import _prefixes
from .c16 import _tup

DERIVE = ["Select", "Where", "MD0", "MD1", "Awk", "QMD"]
EXEC = ["Value", "ValueT", "ValueOv", "ValueAsync", "ValueOvFalsy", "ValueOvAw"]


class Model:
    def __init__(self, derive=DERIVE, execs=EXEC):
        self.derive, self.execs = list(derive), list(execs)

    def fresh(self):
        w = streams.World(2, 1)
        w.datasets[1].fail = True
        return w

    def enabled(self, w):
        ops = []
        for i in range(len(w.streams)):
            if not w.terminal[i]:
                for d in self.derive:
                    ops.append((d, i, (("a", 1),)) if d == "QMD" else (d, i))
            for e in self.execs:
                ops.append((e, i))
        return ops

    def op_name(self, op):
        return op[0]

    def outcomes(self, w):
        if not w.last:
            return {"derive"}
        return {"exec:" + ":".join(map(str, w.last["ret"][:2] if w.last["ret"][0] == "raise" else w.last["ret"][:1]))}

    def key(self, w):
        return w.key() + f"|log{len(w.log)}"

    def apply(self, w, op):
        from func_adl import find_EventDataset

        n_before = len(w.log)
        w.apply(op)
        L = w.last
        if L is None:
            if len(w.log) != n_before:
                return [{"kind": "executor-invoked-while-building", "msg": f"{op}: {len(w.log) - n_before} calls"}]
            j = len(w.streams) - 1
            try:
                root = find_EventDataset(w.streams[j].query_ast)
                ok = getattr(root, "_eds_object", None) is w.datasets[w.root[j]]
            except Exception as e:
                return [{"kind": "root-not-recoverable", "msg": f"{op}: {type(e).__name__}: {e}"}]
            if not ok:
                return [{"kind": "wrong-root-recovered", "msg": f"{op}"}]
            return []
        i = L["target"]
        rootds = w.datasets[w.root[i]]
        new = w.log[L["n0"]:]
        if L["override"]:
            if new or len(L["ov_log"]) != 1:
                return [{"kind": "override-not-used-exactly-once",
                         "msg": f"dataset executor calls {len(new)}, override calls {len(L['ov_log'])}"}]
            got_ast, got_title = L["ov_log"][0]
            want_ret = ("ret", L["ov_token"])
        else:
            if len(new) != 1:
                return [{"kind": "executor-call-count", "msg": f"{op}: {len(new)} executor calls"}]
            idx, got_ast, got_title = new[0]
            if idx != rootds.idx:
                return [{"kind": "wrong-dataset-executed", "msg": f"{op}: ran on ds{idx}, root is ds{rootds.idx}"}]
            if w.log_self[L["n0"]] is not rootds:
                return [{"kind": "executed-on-a-copy-of-the-root-dataset", "msg": f"{op}: the executor ran on another object than "
                         f"the dataset at the root of the stream"}]
            n = L["n0"] + 1
            want_ret = ("raise", streams.EXC[n % len(streams.EXC)].__name__, ("boom", idx, n)) if rootds.fail \
                else ("ret", ("tok", idx, n))
        if got_title != L["title"]:
            return [{"kind": "wrong-title", "msg": f"{got_title!r} != {L['title']!r}"}]
        got = streams.dump_without_empty_metadata(got_ast, w.ds_index, strip=False)
        if got != L["expected_ast"]:
            return [{"kind": "wrong-ast-delivered",
                     "msg": f"{op} on {w.deriv[i]}: got {got[:200]} expected {L['expected_ast'][:200]}"}]
        try:
            r = find_EventDataset(got_ast)
            if getattr(r, "_eds_object", None) is not rootds:
                return [{"kind": "delivered-ast-lost-its-root-dataset", "msg": str(op)}]
        except Exception as e:
            return [{"kind": "delivered-ast-root-not-recoverable", "msg": f"{type(e).__name__}: {e}"}]
        if L["ret"] != want_ret:
            return [{"kind": "wrong-result-or-exception", "msg": f"{L['ret']!r} != {want_ret!r}"}]
        return []


class C12(Check):
    pid = "C12"
    title = "value() runs exactly the stream's query on its own dataset, once"
    state_based = True
    rule = ("(1) breadth-first exploration of every history up to the stated depth over THREE datasets (two untyped, "
            "one typed; the executor of one of them always raises) of Select/Where/MetaData({})/MetaData({k:1})/"
            "AsAwkwardArray/QMetaData and value()/value(title)/value(executor=override)/value_async, the override also as "
            "a callable object that is false in a boolean context and as an executor whose result is itself "
            "awaitable, each applicable "
            "to every live stream; reference model: a list of executor calls; after every transition the log, the "
            "delivered AST (field dump must equal an independent serialisation of the stream's AST that skips "
            "exactly the empty MetaData wrappers), the title, the return value / exception and the recoverable "
            "root dataset are compared; (2) every interleaving of start / complete-with-result / "
            "complete-with-exception of N concurrent value_async() calls on streams of two datasets; "
            "(3) find_EventDataset on constructed ASTs with 0, 1, 2 dataset nodes in every position (two different "
            "datasets, the same dataset twice, roots written as text without a dataset object); (4) streams not "
            "rooted in a dataset object: the override is used exactly once, no override is rejected")
    assumptions = ["the executor suspends on a gate the scheduler resolves; no event loop is involved in (2): value_async is assumed to "
                   "await nothing but the executor (a library that blocked on an asyncio primitive of its own would need a running loop)",
                   "bursts: N = 5..7 calls all in flight before the first completes, every completion order (N! x 3 outcome patterns)",
                   "value() (make_sync: event loop in a worker thread) is one atomic operation in (1)"]
    level_text = ("explicit-state model checking of the implementation (histories) plus exhaustive schedule "
                  "enumeration of concurrent value_async calls, reference model = executor call list")

    def spaces(self, tier):
        Q = tier == "quick"
        depth = 3 if Q else 4
        m = Model()
        out = [Space(f"histories<={depth}", {"depth": depth, "menu": DERIVE + EXEC, "datasets": 3},
                     (lambda depth=depth, plen=(1 if Q else 2): [("full", depth, p) for p in _prefixes(m, plen)]),
                     runner="run_prefix"),
               Space("schedules", {"concurrent_calls": "N<=3" if Q else "N<=4", "datasets": 2,
                                   "completions": "result or exception"},
                     [("sched", n) for n in ((1, 2, 3) if Q else (1, 2, 3, 4))], runner="run_sched"),
               Space("bursts", {"concurrent_calls": "N = 5, 6" if Q else "N = 5, 6, 7", "datasets": 2,
                                "schedules": "all N started before any completes, then every completion order x {all results, all exceptions, alternating}"},
                     [("burst", n) for n in ((5, 6) if Q else (5, 6, 7))], runner="run_sched"),
               Space("rootless streams", {"bases": "a name, a text-decoded dataset call, a text-decoded query", "derivations": 5,
                                           "calls": "value(executor=override[, title]) and value()"}, [("rootless", 0)], runner="run_rootless"),
               Space("roots", {"asts": "0, 1, 2 EventDataset nodes at chain root / lambda body / argument"},
                     [("roots", 0)], runner="run_roots")]
        return out

    def run_prefix(self, payload):
        mname, depth, prefix = payload
        m = Model()
        r = explore.explore(m, _tup(prefix), depth)
        res = {"n": r["trans"], "nt": [], "oc": sorted(r["outcomes"]), "tags": dict(r["ops"]), "viol": [],
               "states": r["states"], "trans": r["trans"],
               "sample_text": f"subtree below {prefix}: {len(r['states'])} states, {r['trans']} transitions"}
        for v in r["viol"]:
            res["viol"].append({"kind": v["kind"], "canon": repr(v["hist"]), "msg": v["msg"]})
        return res

    # ------------------------------------------------------------------ schedules
    def run_sched(self, payload):
        from func_adl import EventDataset

        mode, N = payload
        res = {"n": 0, "nt": [], "oc": [], "tags": {}, "viol": [], "states": set(), "trans": 0}
        base = [(0, "Select", "lambda e: e.x"), (1, "Select", "lambda e: e.y"), (0, "Where", "lambda e: e.z > 1"),
                (1, "MD0", None)]
        specs = [(base[i % 4][0], base[i % 4][1], (base[i % 4][2] or "").replace("e.", f"e.k{i // 4}") or None) for i in range(N)]

        def make():
            log = []

            class DS(EventDataset):
                def __init__(self, idx):
                    super().__init__()
                    self.idx = idx

                async def execute_result_async(self, a, title=None):
                    g = sched.Gate()
                    log.append({"ds": self.idx, "title": title, "gate": g,
                                "ast": streams.dump_without_empty_metadata(a, lambda v: "?", strip=False)})
                    return await g

            d = [DS(0), DS(1)]
            ss = []
            for di, op, lam in specs:
                ss.append(d[di].MetaData({}).Select("lambda q: q") if op == "MD0" else getattr(d[di], op)(lam))
            want = [(sp[0], streams.dump_without_empty_metadata(s.query_ast, lambda v: "?"), f"t{i}")
                    for i, (sp, s) in enumerate(zip(specs, ss))]
            return [s.value_async(title=f"t{i}") for i, s in enumerate(ss)], log, want

        first = {}

        def done(schedule, obs, log, want, finished):
            res["n"] += 1
            res["trans"] += len(schedule)
            res["states"].add(h64(repr(schedule)))
            key = repr(schedule)
            if len(first) < 1:
                first[key] = obs
            bad = None
            if len(log) != N:
                bad = ("executor-call-count", f"{len(log)} calls for {N} value_async()")
            for o in obs:
                if o[0] == "started" and o[2] != 1:
                    bad = ("start-did-not-call-executor-once", repr(o))
                if o[0] in ("returned", "raised") and (o[2] is not True or o[3] != 0):
                    bad = ("coroutine-got-another-gates-outcome", repr(o))
                if o[0] in ("raised-other", "raised-at-start", "finished-at-start", "still-pending"):
                    bad = ("unexpected-" + o[0], repr(o))
            starts = [i for a, i in schedule if a == "start"]
            for entry, i in zip(log, starts):
                di, dump, title = want[i]
                if entry["ds"] != di or entry["title"] != title:
                    bad = ("wrong-dataset-or-title", f"call {i}: ds{entry['ds']} title {entry['title']!r}")
                elif entry["ast"] != dump:
                    bad = ("wrong-ast-delivered", f"call {i}: {entry['ast'][:150]} expected {dump[:150]}")
            if len(finished) != N:
                bad = ("not-all-finished", repr(finished.keys()))
            res["oc"].append("sched-ok" if not bad else bad[0])
            if bad:
                res["viol"].append({"kind": bad[0], "canon": f"N={N}|{schedule!r}", "msg": bad[1]})

        if mode == "burst":
            # many calls in flight at once: all N started (in order) before any completes, then EVERY completion order,
            # with all results / all exceptions / alternating
            import itertools

            starts = [("start", i) for i in range(N)]
            obs, enabled, log, want, finished = sched.run_schedule(make, starts)
            n = 0
            if any(o[0] != "started" for o in obs) or len(log) != N:
                done(tuple(starts), obs, log, want, finished)
                n = 1
            else:
                for perm in itertools.permutations(range(N)):
                    for pat in ("ok", "err", "alt"):
                        sc = starts + [(("ok" if (pat == "ok" or (pat == "alt" and k % 2 == 0)) else "err"), i) for k, i in enumerate(perm)]
                        obs, enabled, log, want, finished = sched.run_schedule(make, sc)
                        done(tuple(sc), obs, log, want, finished)
                        n += 1
        else:
            n = sched.all_schedules(make, done)
        # determinism: the first schedule replayed twice must give identical observations
        for k, obs in first.items():
            o2 = sched.run_schedule(make, eval(k))[0]
            if o2 != obs:
                raise RuntimeError("harness: schedule replay is not deterministic")
        res["tags"][f"schedules_N{N}"] = n
        res["sample_text"] = f"N={N}: {n} complete schedules"
        res["oc"] = sorted(set(res["oc"]))
        res["viol"] = res["viol"][:20]
        return res

    # ------------------------------------------------------------------ root lookup
    def run_roots(self, _):
        from func_adl import EventDataset, find_EventDataset

        class DS(EventDataset):
            async def execute_result_async(self, a, title=None):
                return a

        res = {"n": 0, "nt": [], "oc": [], "tags": {}, "viol": [], "states": set(), "trans": 0}
        shapes = ["R", "Select(R, lambda e: e.x)", "Where(Select(R, lambda e: e.x), lambda v: v > 1)",
                  "Select(xs, lambda e: First(Select(R, lambda q: q.y)))", "f(1, R)", "ResultTTree(R, ['a'], 't', 'f')",
                  "(R, 1)", "Select(R, lambda e: R2)", "g(R, R2)", "Select(R, lambda e: e.x) + Count(R2)"]
        for sh in shapes:
            for variant in ("one", "none", "two", "two-same", "two-unbound", "one-unbound"):
                src = sh
                if variant == "none":
                    src = sh.replace("R2", "zs").replace("R", "ys")
                tree = ast.parse(src, mode="eval").body
                ds = [DS(), DS()]
                want = []

                class Sub(ast.NodeTransformer):
                    def visit_Name(self, n):
                        unbound = variant.endswith("unbound")  # a root written as text: EventDataset() without an object
                        if n.id == "R":
                            want.append(None if unbound else ds[0])
                            return ast.parse("EventDataset()", mode="eval").body if unbound else ds[0].query_ast
                        if n.id == "R2":
                            if variant.startswith("two") or "R" not in sh.replace("R2", ""):
                                other = ds[0] if variant == "two-same" else ds[1]
                                want.append(None if unbound else other)
                                return ast.parse("EventDataset()", mode="eval").body if unbound else other.query_ast
                            return ast.Name("zs", ast.Load())
                        return n
                tree = Sub().visit(tree)
                res["n"] += 1
                nroots = len(want)
                try:
                    r = find_EventDataset(tree)
                    out = ("found", getattr(r, "_eds_object", None))
                except Exception as e:
                    out = ("raised", type(e).__name__)
                res["oc"].append(f"roots={nroots}:{out[0]}")
                canon = f"{sh}|{variant}"
                if variant == "one-unbound" and nroots == 1:
                    if out[0] != "found":
                        res["viol"].append({"kind": "single-root-not-found", "canon": canon, "msg": repr(out)})
                elif nroots == 1:
                    if out[0] != "found" or out[1] is not want[0]:
                        res["viol"].append({"kind": "single-root-not-found", "canon": canon, "msg": repr(out)})
                else:
                    if out[0] != "raised":
                        res["viol"].append({"kind": f"{nroots}-roots-not-rejected", "canon": canon, "msg": repr(out)})
                res["nt"].append(canon)
        res["oc"] = sorted(set(res["oc"]))
        return res

    def run_rootless(self, k):
        """streams that are not rooted in a dataset object (built on a name, or decoded from text): an override
        executor is the one executor of the call; without an override the call is rejected"""
        from func_adl import ObjectStream

        res = {"n": 0, "nt": [f"rootless|{k}"], "oc": [], "tags": {}, "viol": [], "states": set(), "trans": 0}
        bases = [lambda: ObjectStream(ast.Name("xs", ast.Load())),
                 lambda: ObjectStream(ast.parse("EventDataset()", mode="eval").body),
                 lambda: ObjectStream(ast.parse("Select(EventDataset(), lambda e: e.jets)", mode="eval").body)]
        derive = [lambda s: s, lambda s: s.Select("lambda e: e.x"), lambda s: s.Where("lambda e: e.x > 1").MetaData({}),
                  lambda s: s.Select("lambda e: e.x").AsAwkwardArray(["c"]), lambda s: s.QMetaData({"a": 1}).Select("lambda e: e.y")]
        for b in bases:
            for d in derive:
                s = d(b())
                want = streams.dump_without_empty_metadata(s.query_ast, lambda v: "?")
                for title in (None, "t"):
                    calls = []

                    async def ov(a, title=None):
                        calls.append((a, title))
                        return ("ov", len(calls))

                    res["n"] += 1
                    try:
                        r = s.value(executor=ov, title=title)
                    except Exception as e:
                        res["oc"].append("override:raised")
                        res["viol"].append({"kind": "override-not-used-on-a-stream-without-dataset", "canon": f"rootless|{k}",
                                            "msg": f"{ast.unparse(s.query_ast)[:120]}: {type(e).__name__}: {e}"[:220]})
                        continue
                    got = streams.dump_without_empty_metadata(calls[0][0], lambda v: "?", strip=False) if calls else None
                    if len(calls) != 1 or r != ("ov", 1) or calls[0][1] != title or got != want:
                        res["viol"].append({"kind": "override-call-differs", "canon": f"rootless|{k}",
                                            "msg": f"calls {len(calls)} result {r!r} title {calls[0][1] if calls else None!r}"})
                    res["oc"].append("override:used-once")
                try:
                    s.value()
                    res["oc"].append("no-override:returned")
                    res["viol"].append({"kind": "stream-without-dataset-executed", "canon": f"rootless|{k}", "msg": ast.unparse(s.query_ast)[:150]})
                except Exception:
                    res["oc"].append("no-override:rejected")
        res["oc"] = sorted(set(res["oc"]))
        return res

    def standalone(self, space_name, payload, viol):
        import ast as _ast

        try:
            canon = viol["canon"].split("|")[-1]
            hist = _ast.literal_eval(canon)
            return streams.history_code((2, 1), hist)
        except Exception:
            return None

    def render(self, space_name, payload):
        return repr(payload)


CHECK = C12()
