"""C18 - simplification is total on well-formed queries."""
import ast
import copy
import re
import signal

from .. import qsem, qspaces
from .. import terms as T
from ..core import Check, Space
from . import c02


class _Timeout(Exception):
    pass


def _alarm(signum, frame):
    raise _Timeout()


def wellformed(r):
    """unparse + compile without any repair.  Returns None or a (kind, message)."""
    try:
        ast.unparse(r)
    except Exception as e:
        return ("malformed:unparse", f"{type(e).__name__}: {e}")
    try:
        compile(ast.fix_missing_locations(ast.Expression(copy.deepcopy(r))), "<r>", "eval")
    except Exception as e:
        return ("malformed:compile", f"{type(e).__name__}: {e}")
    return None


_OOR = re.compile(r"[\)\]\}a-z0-9_]\[(\d+)\]")


def _oor_annot(q):
    "by construction: does the term contain a constant selector beyond the end of a tuple/list"
    def w(t):
        if t[0] == "idxv" and t[2].isdigit():
            return True
        for c in t[1:]:
            if isinstance(c, tuple):
                if c and isinstance(c[0], str) and c[0] in T._TAGS:
                    if w(c):
                        return True
                else:
                    for cc in c:
                        if isinstance(cc, tuple) and cc and isinstance(cc[0], str) and cc[0] in T._TAGS and w(cc):
                            return True
        return False
    return bool(w(q[1]))


def _const_int(n):
    if isinstance(n, ast.Constant) and isinstance(n.value, int) and not isinstance(n.value, bool):
        return n.value
    if isinstance(n, ast.UnaryOp) and isinstance(n.op, ast.USub) and isinstance(n.operand, ast.Constant) and \
            isinstance(n.operand.value, int) and not isinstance(n.operand.value, bool):
        return -n.operand.value
    return None


class _MarkBeforeStart(ast.NodeTransformer):
    "replace every literal[-k] with k > len(literal) (Python: IndexError, always) by an opaque name"
    def __init__(self):
        self.n = 0

    def visit_Subscript(self, node):
        self.generic_visit(node)
        k = _const_int(node.slice)
        if isinstance(node.value, (ast.Tuple, ast.List)) and k is not None and k < -len(node.value.elts):
            self.n += 1
            return ast.Name(id="ODD_PROJECTION", ctx=ast.Load())
        return node


# (source, contains a constant index beyond the end of a tuple / list literal)
WRITTEN = [
    ("Select(ds, lambda e: ()[0])", True), ("Select(ds, lambda e: [][0])", True), ("Select(ds, lambda e: [][False])", True),
    ("Select(ds, lambda e: (lambda t: t[0])(()))", True), ("Select(ds, lambda e: First(Select(e.jets, lambda j: ()))[0])", True),
    ("Select(Select(ds, lambda e: []), lambda r: r[1])", True), ("Select(ds, lambda e: {}['a'])", False), ("Select(ds, lambda e: {}.a)", False),
    ("Select(ds, lambda e: ()[-1])", False), ("Select(ds, lambda e: [][0:1])", False),
    ("Select(ds, lambda e: (*e.jets, e.a)[0])", False), ("Select(ds, lambda e: [*e.jets, e.a][1])", False),
    ("Select(ds, lambda e: (e.a, *e.jets)[0])", False), ("Select(Select(ds, lambda e: (*e.jets, e.a)), lambda t: t[0])", False),
    ("Select(ds, lambda e: {**{'a': e.a}, 'b': e.b}['b'])", False), ("Select(ds, lambda e: {'b': e.b, **{'b': e.a}}['b'])", False),
    ("Select(ds, lambda e: {**{'a': e.a}, 'b': e.b}.b)", False),
    ("Select(ds, lambda e: {'a': e.a, 'a': e.b}['a'])", False), ("Select(ds, lambda e: {'a': e.a, 'a': e.b}.a)", False),
    ("Select(ds, lambda e: {1: e.a, True: e.b}[1])", False), ("Select(ds, lambda e: {0: e.a, False: e.b, 0.0: e.a + e.b}[0])", False),
    ("Select(ds, lambda e: {e.a: 1, 'k': e.b}['k'])", False), ("Select(ds, lambda e: {'k': e.b, e.jets: 1}['k'])", False),
    # a computed key BEHIND the written one that may be equal to it when the query runs
    ("Select(ds, lambda e: {1: e.a + 10, e.b: 7}[1])", False), ("Select(ds, lambda e: {0: e.a + 10, e.b: 7}[0])", False),
    ("Select(ds, lambda e: {2: e.b + 10, e.a: 7}[2])", False), ("Select(ds, lambda e: {1: e.a + 10, e.a: 7, e.b: 8}[1])", False),
    ("Select(Select(ds, lambda e: {1: e.a + 10, e.b: 7}), lambda d: d[1])", False),
    ("Select(ds, lambda e: {'k': 1, ('k', 0)[0]: 2}['k'])", False), ("Select(ds, lambda e: {'k': 1, e.b: 2}.k)", False),
    ("Select(ds, lambda e: {'a': 1, e.b: 2}['zz'])", False), ("Select(Select(ds, lambda e: {'k': e.a, e.b: 2}), lambda d: d['k'])", False), ("Select(ds, lambda e: {e.a: 1, e.b: 2}[e.a])", False),
    ("Select(Select(ds, lambda e: {'a': e.a, 'a': e.b}), lambda d: d.a)", False),
    ("Select(ds, lambda e: (e.a, e.b)[True])", False), ("Select(ds, lambda e: [e.a, e.b][False])", False),
    # lambdas with unusual signatures meeting the fusion rules (python accepts a call with one argument for each of them)
    ("SelectMany(SelectMany(ds, lambda *a: a[0].jets), lambda j: j.tr)", False),
    ("Select(SelectMany(ds, lambda *a: a[0].jets), lambda j: j.pt)", False),
    ("Where(Select(ds, lambda *a: a[0].a), lambda v: v > 0)", False),
    ("Select(Select(ds, lambda e, /: e.a), lambda v: v + 1)", False),
    ("Select(Select(ds, lambda e, w=20: e.a + w), lambda x: x + 1)", False),
    ("SelectMany(SelectMany(ds, lambda e, w=20: e.jets), lambda j, k=1: Select(j.tr, lambda t: t.q + k))", False),
    ("Select(Where(ds, lambda e, *, w=0: e.a > w), lambda x: x.a)", False),
    ("Where(Where(ds, lambda e, w=0: e.a > w), lambda x, v=3: x.a < v)", False),
    ("Select(Select(ds, lambda e, /: e), lambda v, /: v.a)", False),
    ("First(Select(ds, lambda *a: (a[0].a, 1)))[0]", False),
    # ... whose defaulted parameter is USED in the body that a fusion rule moves
    ("SelectMany(SelectMany(ds, lambda e, k=2: Select(e.jets, lambda j: j.pt + k)), lambda v: [v])", False),
    ("Select(SelectMany(ds, lambda e, k=2: Select(e.jets, lambda j: j.pt + k)), lambda v: v + 1)", False),
    ("Where(SelectMany(ds, lambda e, k=2: Select(e.jets, lambda j: j.pt + k)), lambda v: v > 1)", False),
    ("Select(ds, lambda e, z=0: Select(SelectMany(e.jets, lambda e, k=1: e.tr), lambda t: t.q + e.a))", False),
    ("Select(ds, lambda e, z=0: SelectMany(SelectMany(e.jets, lambda e, k=1: e.tr), lambda t: [t.q + e.a + z]))", False),
    ("SelectMany(Select(ds, lambda e, k=2: e.a + k), lambda v, m=3: [v + m])", False),
    ("Where(Where(ds, lambda e, k=2: e.a > k), lambda e, k=0: e.b > k)", False),
    # starred / double-starred arguments of a called lambda (an unknown number of arguments: not to be bound one to one)
    ("Select(ds, lambda e: (lambda x: x + 1)(*(e.a,)))", False), ("Select(ds, lambda e: (lambda x, y: x + y)(*(e.a, e.b)))", False),
    ("Select(ds, lambda e: (lambda x, y: x + y)(e.a, *(e.b,)))", False), ("Select(ds, lambda e: (lambda x, y=1: x + y)(*(e.a,)))", False),
    ("Select(ds, lambda e: (lambda x, y: x + y)(**{'x': e.a, 'y': e.b}))", False), ("Select(ds, lambda e: (lambda x: x + 1)(*[e.a]))", False),
    ("Select(Select(ds, lambda e: (e.a,)), lambda t: (lambda x: x + 1)(*t))", False),
]


SHAPES = [
    "Select(ds, selection=lambda e: e.a)", "Select(ds)", "Select(ds, lambda e: e.a, 1)", "Select(ds, f)", "Select()",
    "Where(ds, filter=lambda e: e.a > 1)", "Where(ds, lambda e: True, 1)", "Where(ds, lambda e: e.a > 1, strict=True)",
    "SelectMany(ds, f)", "SelectMany(ds, lambda e: e.jets, 2)", "Select(Select(ds, f), lambda x: x + 1)",
    "Select(Select(ds, lambda e: e.a, 1), lambda x: x + 1)", "Where(Select(ds, selection=lambda e: e.a), lambda x: x > 1)",
    "SelectMany(Select(ds, lambda e: e.jets, k=1), lambda j: j)", "Select(Where(ds, lambda e: e.a > 1, 1), lambda e: e.a)",
    "First(ds, 1).a", "First(ds, default=0).a", "First(ds, 1)[0]", "First().a", "First(Select(ds, lambda e: (e.a, 1)), 0)[0]",
    "First(ds, 1).m(2)", "Select(ds, *fs)", "Select(*args)", "Select(ds, lambda e: First(e.jets, 1).pt)",
    "Select(Select(ds, lambda e: e.jets), lambda js: Select(js, g))",
]


class C18(Check):
    pid = "C18"
    title = "Simplification is total on well-formed queries"
    rule = ("every query of C02's spaces plus every query of the 'odd' slice (literal and packaged "
            "projections with negative / slice / out-of-range / variable selectors and absent dictionary "
            "keys in every operand position) is given to the real simplify_chained_calls; the outcome must "
            "be a returned AST that ast.unparse and compile accept WITHOUT any repair, or FuncADLIndexError "
            "only when the query contains a constant index beyond the end of a tuple/list; odd projections "
            "are additionally evaluated on every dataset against the original; a negative constant index BEFORE THE START of a "
            "literal (always an IndexError in Python) that is still live in the simplified query - decided by simplifying the "
            "query with that projection replaced by an opaque name - must not have become a value. Non-trivial = the simplifier "
            "changed the AST")
    assumptions = [
        "termination is decided by a 20 s alarm and the interpreter's recursion limit per query",
        "well-formedness = ast.unparse succeeds and compile(ast.Expression(...)) succeeds on a deep copy "
        "given only fix_missing_locations (line numbers), no ctx or field repair",
        "a FuncADLIndexError is permitted (not required) when an out-of-range constant index is present",
    ]

    def spaces(self, tier):
        Q = tier == "quick"
        out = []
        for sp in c02.CHECK.spaces(tier):
            if sp.runner == "run_reuse":
                continue  # histories on one simplifier object: C02's own (their members are not single queries)
            out.append(Space("wf:" + sp.name, sp.bounds, sp.cases, runner="run_wf"))
        out.append(Space("oddapp<=7", qspaces.describe("oddapp", 3, 7, qspaces.POOL2),
                         (lambda: qspaces.enumerate_sources("oddapp", 3, 7, qspaces.POOL2, annot=_oor_annot)),
                         runner="run_odd"))
        out.append(Space("oddapp2<=8", qspaces.describe("oddapp2", 4, 8 if Q else 9, qspaces.POOL2),
                         (lambda: qspaces.enumerate_sources("oddapp2", 4, 8 if Q else 9, qspaces.POOL2, annot=_oor_annot)),
                         runner="run_odd"))
        out.append(Space("oddapp3", qspaces.describe("oddapp3", 5, 9 if Q else 10, qspaces.POOL2),
                         (lambda: qspaces.enumerate_sources("oddapp3", 5, 9 if Q else 10, qspaces.POOL2, annot=_oor_annot)),
                         runner="run_odd"))
        for pool in (qspaces.POOL2,):
            hi = 7 if Q else 9
            out.append(Space(f"odd<={hi}", qspaces.describe("odd", 3, hi, pool),
                             (lambda hi=hi, pool=pool: qspaces.enumerate_sources("odd", 3, hi, pool, annot=_oor_annot)),
                             runner="run_odd"))
        out.append(Space("written-out literals", {"cases": "empty tuple / list / dict literals under constant selectors (directly, through a called "
                                                          "lambda, a fused stage, First), starred elements, dictionary spreads, duplicate and "
                                                          "equal-but-differently-typed keys, non-constant keys"},
                         [(s, oor) for s, oor in WRITTEN], runner="run_odd"))
        out.append(Space("operator calls of another shape", {"cases": len(SHAPES), "oracle": "a Select / SelectMany / Where / First call with keyword "
                                                            "arguments, another number of arguments or a non-lambda argument is none of the rewrite "
                                                            "rules' business: the result must be well formed and still hold a call of that name with "
                                                            "the same number of positional arguments and the same keywords"},
                         SHAPES, runner="run_shape"))
        return out

    def run_shape(self, src):
        q = qsem.parse_expr(src)
        res = {"n": 1, "nt": [src], "oc": [], "tags": {}, "viol": []}
        st, r = self._simplify(q)
        if st != "ok":
            res["oc"].append(st)
            res["viol"].append({"kind": ("raised:" + r.split(":")[0]) if st == "raised" else st, "canon": src, "msg": str(r)[:200]})
            return res
        wf = wellformed(r)
        if wf:
            res["oc"].append(wf[0])
            res["viol"].append({"kind": wf[0], "canon": src, "msg": wf[1][:200]})
            return res

        def odd_calls(t):
            out = []
            for n in ast.walk(t):
                if isinstance(n, ast.Call) and isinstance(n.func, ast.Name) and n.func.id in ("Select", "SelectMany", "Where", "First"):
                    std = (len(n.args) == (1 if n.func.id == "First" else 2)) and not n.keywords and \
                        (n.func.id == "First" or isinstance(n.args[1], ast.Lambda))
                    if not std:
                        out.append((n.func.id, len(n.args), tuple(k.arg for k in n.keywords)))
            return sorted(out)
        if odd_calls(q) != odd_calls(r):
            res["oc"].append("arguments-lost")
            res["viol"].append({"kind": "operator-call-of-another-shape-changed", "canon": src,
                                "msg": f"{odd_calls(q)} became {odd_calls(r)}: {ast.unparse(r)[:200]}"})
            return res
        res["oc"].append("shape-kept")
        return res

    def _simplify(self, q):
        from func_adl.ast.function_simplifier import FuncADLIndexError, simplify_chained_calls

        signal.signal(signal.SIGALRM, _alarm)
        signal.alarm(20)
        try:
            r = simplify_chained_calls().visit(copy.deepcopy(q))
            if not isinstance(r, ast.AST):
                return ("raised", f"NotAnAST: the simplifier returned {type(r).__name__}")
            return ("ok", r)
        except FuncADLIndexError as e:
            return ("indexerror", str(e))
        except _Timeout:
            return ("timeout", "")
        except RecursionError:
            return ("recursion", "")
        except Exception as e:
            return ("raised", f"{type(e).__name__}: {e}")
        finally:
            signal.alarm(0)

    def _run(self, src, semantic, has_oor=False):
        q = qsem.parse_expr(src)
        res = {"n": 1, "nt": [], "oc": [], "tags": {}, "viol": []}
        st, r = self._simplify(q)
        if st == "indexerror":
            res["oc"].append("FuncADLIndexError")
            if not has_oor and semantic:
                # a selector that becomes an out-of-range constant only through substitution: justified
                # iff Python itself raises IndexError for the original on some dataset
                from .. import refsem

                f0 = refsem.compile_query(q)
                has_oor = any(refsem.evaluate(f0, d) == ("err", "IndexError") for d in refsem.datasets(False))
            if not has_oor:
                res["viol"].append({"kind": "unjustified-FuncADLIndexError", "canon": src, "msg": r})
            return res
        if st in ("timeout", "recursion"):
            res["oc"].append("nontermination")
            res["viol"].append({"kind": "nontermination:" + st, "canon": src, "msg": ""})
            return res
        if st == "raised":
            res["oc"].append("raised:" + r.split(":")[0])
            res["viol"].append({"kind": "raised:" + r.split(":")[0], "canon": src, "msg": r[:200]})
            return res
        wf = wellformed(r)
        if wf:
            res["oc"].append(wf[0])
            try:
                shown = ast.dump(r)[:300]
            except Exception as e:  # e.g. None where a node belongs
                shown = f"(not dumpable: {type(e).__name__}: {e})"
            res["viol"].append({"kind": wf[0], "canon": src, "msg": wf[1][:200] + " :: " + shown})
            return res
        changed = ast.dump(r) != ast.dump(q)
        if changed:
            res["nt"].append(src)
        res["oc"].append("returned-wellformed" + (":rewritten" if changed else ":unchanged"))
        if semantic:
            kind, msg, n, oc = qsem.compare(q, r)
            res["n"] += n
            res["oc"] += ["sem:" + o for o in oc]
            if kind:
                res["viol"].append({"kind": "odd-projection-" + kind, "canon": src,
                                    "msg": msg + " ; simplified: " + ast.unparse(r)[:200]})
            elif "[-" in src:
                v = self._before_start(q, r, src)
                if v:
                    res["viol"].append(v)
        return res

    def _before_start(self, q, r, src):
        """A negative constant index before the start of a literal raises IndexError in Python, always.  If the
        projection is still LIVE in the simplified query (decided by simplifying the query with the projection replaced
        by an opaque name and looking for that name in the result), the simplified query must not turn the error into a
        value on any dataset on which the original raises it."""
        from .. import refsem

        mk = _MarkBeforeStart()
        q2 = mk.visit(copy.deepcopy(q))
        if not mk.n:
            return None
        st, r2 = self._simplify(q2)
        if st != "ok" or not any(isinstance(n, ast.Name) and n.id == "ODD_PROJECTION" for n in ast.walk(r2)):
            return None  # the projection is dropped as dead code (or the marked query is refused): nothing to demand
        f0, f1 = refsem.compile_query(q), refsem.compile_query(r)
        for i, d in enumerate(refsem.datasets(False)):
            a, b = refsem.evaluate(f0, d), refsem.evaluate(f1, d)
            if a == ("err", "IndexError") and b[0] == "ok":
                return {"kind": "odd-projection-error-became-a-value", "canon": src,
                        "msg": f"dataset#{i}: Python raises IndexError, simplified query gives {str(b[1])[:100]} ; simplified: {ast.unparse(r)[:200]}"}
        return None

    def run_wf(self, src):
        return self._run(src, False)

    def run_odd(self, payload):
        src, has_oor = payload
        return self._run(src, True, has_oor)

    def render(self, space_name, payload):
        return payload if isinstance(payload, str) else payload[0]

    def standalone(self, space_name, src, viol):
        src = src if isinstance(src, str) else src[0]
        return (
            "import ast, copy\nfrom func_adl.ast.function_simplifier import simplify_chained_calls\n"
            f"q = ast.parse({src!r}, mode='eval').body\n"
            "r = simplify_chained_calls().visit(copy.deepcopy(q))\n"
            "print(ast.unparse(r)); compile(ast.fix_missing_locations(ast.Expression(r)), '<r>', 'eval')\n"
        )


CHECK = C18()
