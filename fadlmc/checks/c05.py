"""C05 - captured one-line helper functions are inlined faithfully."""
import ast
import linecache

from .. import refsem
from .. import terms as T
from ..core import Check, Space

# helper bodies by signature: (param kinds) -> [body source]; x, y are the helper's parameters
BODIES = {
    ("Int",): ["x", "x + 1", "(x, 1)", "(x if x > 1 else 0)", "(lambda y: y + x)(2)", "(lambda x: x + 1)(x)",
               "(lambda v, s=2: v * s)(x + 1)", "(lambda *a: a[0] + 1)(x)", "(lambda v, s=2: v * s)(x + 1, s=x)",
               "(lambda v: (lambda w=3: w + v)())(x)", "(lambda y=x: y + 1)()", "(lambda v, *, k=x: v + k)(1)",
               "(lambda v, w=x + 1: (v, w))(x)", "(lambda t: (lambda t_1: t + x))(1)(2)",
               "(lambda t: (lambda t_1, t_2=5: t + x + t_2))(1)(2)"],
    ("Jet",): ["x", "x.pt", "x.tr.Select(lambda t: t.q + x.pt)", "x.tr.Select(lambda x: x.q)",
               "x.tr.Where(lambda t: t.q > x.eta).Count()", "x.tr.Select(lambda j: (j.q, x.pt))",
               "[t.q + x.pt for t in x.tr]", "x.tr.Select(lambda t: (lambda x: x + 1)(t.q))", "[x.q for x in x.tr]",
               "[(x.q, t.q) for x in x.tr for t in x.tr]" if False else "[t.q for t in x.tr if t.q > x.pt]"],
    ("Ev",): ["x.jets.Select(lambda j: j.pt + x.a)", "x.jets.Select(lambda x: x.pt)", "x.a",
              "x.jets.Where(lambda j: j.pt > x.a).Count()", "x.jets.Select(lambda e: e.pt + x.a)"],
    ("Int", "Int"): ["x - y", "(x, y)", "(y, x)", "x"],
    # helpers that return a (curried) function; the call site applies it
    ("Int*",): ["lambda t: (lambda t_1: t + x)", "lambda t: (lambda t_1, t_2=0: t + x + t_2)", "lambda t: (lambda u: t + x + u)",
                "lambda t: (lambda x_1: (t, x))", "lambda x_1: (lambda t: (x_1, x))"],
    ("Ev", "Int"): ["x.jets.Select(lambda j: j.tr.Select(lambda t: t.q + y))",
                    "x.jets.Select(lambda j: j.tr.Select(lambda e: e.q + y))",
                    "x.jets.Select(lambda t: t.tr.Select(lambda j: (j.q, t.pt, y)))",
                    "[[t.q + y for t in j.tr] for j in x.jets]"],
    ("Jet", "Int"): ["x.pt + y", "y", "x", "(y, x.pt)", "x.tr.Select(lambda t: t.q + y)", "x.tr.Select(lambda y: y.q)",
                     "x.tr.Select(lambda t: (lambda y: y + t.q)(y))", "x.tr.Select(lambda j: j.q + y)",
                     "x.tr.Select(lambda e: (e.q, y))",
                     "x.tr.Select(lambda t: x.tr.Select(lambda t_1: (t.q, t_1.q, y)))",
                     "x.tr.Select(lambda t, t_1=1: (t.q, t_1, y))" if False else "x.tr.Select(lambda t: (lambda t_1: (t.q, t_1, y))(2))",
                     "x.tr.Select(lambda t: (lambda t_1: (t.q, y))(2))"],
}
FORMS = ("def1", "defdoc", "lambda", "multi", "effect", "xmod", "closure")

# call sites: lambda e over an event; {H} the helper name; argument expressions chosen so that some mention names
# that are also bound inside helper bodies (t, j, x, y, e)
SITES = {
    ("Int",): ["e.jets.Select(lambda OFF: {H}(OFF.pt))", "[{H}(OFF.pt + e.a) for OFF in e.jets]", "{H}(e.a)", "{H}(x=e.a)", "{H}(e.a) + {H}(e.b)", "e.jets.Select(lambda x: {H}(x.pt))",
               "e.jets.Select(lambda y: {H}(y.pt + e.a))", "e.jets.Select(lambda t: {H}(t.pt))",
               "e.jets.Select(lambda s: {H}(s.pt))", "e.jets.Select(lambda v: {H}(v.pt + e.a))"],
    ("Jet",): ["e.jets.Select(lambda OFF: {H}(OFF))", "[{H}(OFF) for OFF in e.jets if OFF.pt > 0]", "e.jets.Select(lambda j: {H}(j))", "e.jets.Select(lambda x: {H}(x))", "e.jets.Select(lambda t: {H}(t))",
               "e.jets.Select(lambda j: {H}(x=j))", "e.jets.Where(lambda j: j.pt > 0).Select(lambda j: ({H}(j), e.a))"],
    ("Ev",): ["{H}(e)", "{H}(x=e)", "({H}(e), e.a)"],
    ("Int*",): ["e.jets.Select(lambda t: {H}(t.pt)(1)(2))", "{H}(e.a)(1)(2)", "e.jets.Select(lambda t_1: {H}(t_1.pt)(1)(2))",
                "e.jets.Select(lambda x: {H}(x.pt)(1)(2))", "e.jets.Select(lambda x_1: {H}(x_1.pt)(x_1.eta)(2))"],
    ("Int", "Int"): ["e.jets.Select(lambda x: {H}(x.pt, x.eta))", "e.jets.Select(lambda y: {H}(y.pt, y.eta))",
                     "e.jets.Select(lambda x: {H}(y=x.eta, x=x.pt))", "{H}(e.a, e.b)", "e.jets.Select(lambda x: {H}(x.pt, y=x.eta))"],
    ("Ev", "Int"): ["{H}(e, e.a)", "{H}(x=e, y=e.b)", "e.jets.Select(lambda t: {H}(e, t.pt))",
                    "e.jets.Select(lambda j: {H}(e, j.pt))", "e.jets.Select(lambda j: j.tr.Select(lambda t: {H}(e, t.q + j.pt)))"],
    ("Jet", "Int"): ["e.jets.Select(lambda j: {H}(j, e.a))", "e.jets.Select(lambda j: {H}(x=j, y=e.a))",
                     "e.jets.Select(lambda j: {H}(y=e.a, x=j))", "e.jets.Select(lambda j: {H}(j, y=e.a))",
                     "e.jets.Select(lambda y: {H}(y, e.a))", "e.jets.Select(lambda t: {H}(t, t.pt))",
                     "e.jets.Select(lambda x: {H}(x, x.eta))", "e.jets.Select(lambda j: j.tr.Select(lambda t: {H}(j, t.q)))"],
}
# helpers calling helpers (depth 2): outer body in terms of inner helper g
NESTED = {
    ("Int",): ["g(x) + 1", "g(g(x))", "g(x=x)"],
    ("Jet",): ["g(x)", "(g(x), x.pt)", "x.tr.Select(lambda t: g(x))"],
    ("Jet", "Int"): ["g(x, y)", "g(x, y + 1)", "g(y=y, x=x)"],
}


def helper_def(name, params, body, form):
    ps = ", ".join(params)
    if form == "def1":
        return f"def {name}({ps}): return {body}\n"
    if form == "defdoc":
        return f"def {name}({ps}):\n    'doc string'\n    return {body}\n"
    if form == "multi":
        # two statements: cannot be inlined, must be left as a call by name
        return f"def {name}({ps}):\n    result = {body}\n    return result\n"
    if form == "xmod":
        # defined in ANOTHER module, using a global of that module; the lambda's module has a global of the same name
        return f"OFF = 3\ndef {name}({ps}): return ({body}, OFF)\n"
    if form == "closure":
        # uses a variable of its enclosing function; the lambda's module has a global of the same name
        return f"def mk_{name}():\n    OFF = 5\n    def {name}({ps}): return ({body}, OFF)\n    return {name}\n{name} = mk_{name}()\n"
    if form == "effect":
        # an expression statement with an effect before the return: not a one-line helper either
        return f"def {name}({ps}):\n    EFFECTS.append('{name}')\n    return {body}\n"
    return f"{name} = lambda {ps}: {body}\n"


# helper definitions written out in full: lexical scoping between helpers, starred arguments
RAW = [
    # the outer helper's parameter is spelled like a name that is free in the inner helper (a builtin / a global)
    ("def g(v): return len([v, v])\ndef h(len): return g(len) + 1\n", "h(e.a)"),
    ("def g(v): return len([v, v])\ndef h(len): return g(len) + 1\n", "e.jets.Select(lambda len: h(len.pt))"),
    ("def g(v): return len([v, v])\ndef h(len): return g(len) + 1\n", "[h(len.pt) for len in e.jets if len.pt > 0]"),
    ("def h(v): return len([v, v]) + abs(v)\n", "e.jets.Select(lambda len: len.tr.Select(lambda abs: h(abs.q + len.pt)))"),
    ("def h(v): return len([v, v])\n", "(lambda len: h(len))(e.a)"),
    ("W = 5\ndef g(v): return v + W\ndef h(W): return g(W) * 2\n", "h(e.a)"),
    ("def g(v): return abs(v)\ndef h(abs): return g(abs)\n", "h(e.a)"),
    ("g = (lambda v: list([v]))\ndef h(list): return g(list)\n", "h(e.a)"),
    # three levels
    ("def k(a): return len([a])\ndef g(len): return k(len) + len\ndef h(x): return g(x)\n", "h(e.a)"),
    # closures made by one factory (they share their code), one calling the other
    ("def mk(inner, k):\n    return (lambda v: inner(v) + k)\nbase = (lambda v: v * 2)\ng = mk(base, 1)\nh = mk(g, 10)\n", "h(e.a)"),
    ("def mk(inner, k):\n    def step(v): return inner(v) + k\n    return step\ndef base(v): return v * 2\ng = mk(base, 1)\nh = mk(mk(g, 10), 100)\n",
     "e.jets.Select(lambda j: h(j.pt))"),
    # comprehensions with several for clauses inside a helper (kept as they are), followed by other uses of the names
    # (what two for clauses lower to is not C05's or C06's subject: the comprehension's value is projected away)
    ("def h(x): return ([1 for j in x.jets for t in j.tr], x.a)[1]\n", "(h(e), e.a, e.jets.Select(lambda j: j.pt))"),
    ("def h(x, j): return (([1 for x in x.jets for t in x.tr], j)[1], x.a)\n", "(h(e, e.a), e.b)"),
    ("def g(x): return ([1 for j in x.jets for x in j.tr], x.b)[1]\ndef h(x, j): return (g(x), x.a, j)\n", "(h(e, e.b), e.a)"),
    ("def h(j): return ([1 for x in j.jets for t in x.tr], j.a)[1]\n", "e.jets.Select(lambda x: (h(e), x.pt))"),
    # starred / double-starred arguments cannot be bound to single parameters
    ("def h(x): return x\n", "h(*[e.a])"),
    ("def h(x, y): return (y, x)\n", "h(*[e.a, e.b])"),
    ("def h(x, y): return (y, x)\n", "h(e.a, *[e.b])"),
    ("def h(x, y=3): return (y, x)\n", "h(**{'x': e.a})"),
    # a helper with defaulted parameters (left as a call of a lambda; the simplifier binds the defaults)
    ("def h(x, scale=2): return x * scale\n", "h(e.a)"),
    ("def h(x, scale=2): return x * scale\n", "h(e.a, scale=e.b)"),
    ("def h(x, *, scale=2): return x * scale\n", "h(e.a)"),
    # helpers with TWO defaulted parameters under every call shape
    ("def h(x, scale=2, shift=7): return x * scale + shift\n", "h(e.a)"),
    ("def h(x, scale=2, shift=7): return x * scale + shift\n", "h(e.a, 4)"),
    ("def h(x, scale=2, shift=7): return x * scale + shift\n", "h(e.a, shift=1)"),
    ("def h(x, scale=2, shift=7): return x * scale + shift\n", "h(x=e.a, scale=3)"),
    ("def h(x, scale=2, shift=7): return x * scale + shift\n", "h(shift=e.b, x=e.a)"),
    ("def h(x, scale=2, shift=7): return x * scale + shift\n", "h(e.a, 4, 5) + h(e.b, shift=0)"),
    ("h = (lambda x, scale=2, shift=7: x * scale + shift)\n", "e.jets.Select(lambda j: h(j.pt, shift=e.a))"),
    # comprehensions with two for clauses whose second iterates through the first variable; the value is compared after
    # flattening (what two for clauses lower to is not prescribed: the leaves are)
    ("FLAT:def h(x): return [t.q for j in x.jets for t in j.tr]\n", "(lambda j: h(j))(e)"),
    ("FLAT:def h(j): return [t.q for j in j.jets for t in j.tr]\n", "h(e)"),
    ("FLAT:def h(x): return [t.q + j.pt for j in x.jets for t in j.tr]\n", "e.jets.Select(lambda j: h(e))"),
    ("FLAT:def h(x, j): return [t.q + j for j2 in x.jets for t in j2.tr]\n", "(lambda j2: h(j2, j2.a))(e)"),
    # the query lambda is written inside a function whose LOCAL variable is spelled like a module global that a module-level helper reads
    ("W = 5\ndef g(v): return v + W\ndef build(ds, W=100):\n    return ds.Select(\n        lambda e: g(e.a) * W\n    )\n", "REF:g(e.a) * 100"),
    ("W = 5\ndef g(v): return v + W\ndef h(v): return g(v) + 1\ndef build(ds):\n    W = 100\n    return ds.Select(\n        lambda e: (h(e.a), W)\n    )\n",
     "REF:(h(e.a), 100)"),
    ("W = 5\ndef g(v): return v + W\ndef build(ds):\n    def inner(W):\n        return ds.Select(\n            lambda e: e.jets.Select(lambda j: g(j.pt) + W)\n        )\n    return inner(100)\n",
     "REF:e.jets.Select(lambda j: g(j.pt) + 100)"),
    # a helper defined INSIDE a function, with a multi-line string whose continuation lines are indented less than the def
    ("def build(ds):\n    def h(x):\n        return (x, \"\"\"a\n  bcdefghijkl\nxyzuvwrstq\"\"\")\n    return ds.Select(\n        lambda e: h(e.a)\n    )\n",
     "REF:(e.a, 'a\\n  bcdefghijkl\\nxyzuvwrstq')"),
    ("class K:\n    @staticmethod\n    def build(ds):\n        def h(x):\n            return (\"\"\"p\n q\n        r\"\"\", x)\n        return ds.Select(\n            lambda e: h(e.a)\n        )\nbuild = K.build\n",
     "REF:('p\\n q\\n        r', e.a)"),
    # a comprehension WITH a filter inside a helper; the call site's variable is spelled like the comprehension's target
    ("def h(pt, near): return [j.pt - pt for j in near if j.pt > 1]\n", "e.jets.Select(lambda j: h(j.pt, e.jets))"),
    ("def h(pt, near): return [j.pt - pt for j in near if j.pt > pt if j.eta > 0]\n", "e.jets.Select(lambda j: h(j.pt, e.jets))"),
    ("def h(j, near): return [j.pt - k.pt for k in near if k.pt > j.pt]\n", "e.jets.Select(lambda k: h(k, e.jets))"),
    ("def h(pt, near): return (t.q - pt for t in near if t.q > pt)\n", "e.jets.Select(lambda t: list(h(t.pt, t.tr)))"),
    # a BOUND METHOD captured under a plain name: its function has one parameter more than the call has arguments
    ("class K:\n    off = 5\n    def m(self, x): return x + 1\nh = K().m\n", "h(e.a)"),
    ("class K:\n    def __init__(self): self.off = 5\n    def m(self, x): return x + self.off\nh = K().m\n", "h(e.a)"),
    ("class K:\n    def m(self, x): return x * 2\nh = K().m\n", "e.jets.Select(lambda j: h(j.pt))"),
    ("class K:\n    @classmethod\n    def m(cls, x): return x * 2\nh = K.m\n", "h(e.a)"),
    ("class K:\n    @staticmethod\n    def m(x): return x * 2\nh = K.m\n", "h(e.a)"),
    ("class K:\n    def m(self, x): return x * 2\nh = K().m\ndef g(v): return h(v) + 1\n", "g(e.a)"),
]
_N = [0]


def _hmodel():
    from . import c04

    return c04.HModel(derives=("derive-helper", "derive-helper-closure"), broken=True)


class C05(Check):
    pid = "C05"
    title = "Captured one-line helper functions are inlined faithfully"
    rule = ("every helper over the parameter lists (Int), (Jet), (Ev), (Jet, Int) with every body of the menu (bare "
            "parameter, arithmetic, tuple, conditional, nested Select/Where/Count, nested lambdas re-using a parameter "
            "name, called lambdas, a comprehension, inner binders named like the caller's variables), defined as a "
            "one-line def, a def with docstring, a lambda assigned to a name, or (not inlinable) a def with an assignment / with an effectful expression statement before the return, x every call site (positional, keyword, "
            "re-ordered keyword, mixed; one or two calls; arguments that mention names also bound inside the helper; "
            "at lambda depth 1..3), plus helpers calling helpers (depth 2). The lambda is passed as a Python callable in "
            "a generated module. Oracle: the emitted lambda, evaluated by CPython in an environment containing only "
            "the module's helpers by name, equals Python calling the original lambda on every dataset, and no other "
            "free name remains. Non-trivial = distinct (helper, form, call site)")
    assumptions = ["recursive helpers are outside (README: undefined)",
                   "a helper left as a call by name is accepted and means the Python function"]

    def spaces(self, tier):
        def cases():
            out = []
            for sig, bodies in BODIES.items():
                for b in range(len(bodies)):
                    for form in FORMS:
                        for s in range(len(SITES[sig])):
                            out.append((sig, b, form, s, None))
            for k in range(len(RAW)):
                out.append((("raw",), k, "raw", None, None))
            for sig, outers in NESTED.items():
                for o in range(len(outers)):
                    for b in range(len(BODIES[sig])):
                        for form in ("def1", "lambda"):
                            for s in range(min(3, len(SITES[sig]))):
                                out.append((sig, b, form, s, o))
            return out
        Q = tier == "quick"
        nmax = 5 if Q else 6
        hdepth = 4 if Q else 5
        return [Space(f"helper-histories<={hdepth}",
                      {"depth": hdepth, "ops": ["derive with a helper that reads a module global", "derive with a helper that reads "
                                                 "its enclosing function's variable", "rebind either variable", "delete the global", "execute"],
                       "oracle": "every query holds the helper's value AT THE CALL (the same function object is used for every derive)"},
                      (lambda hdepth=hdepth: [("hist", hdepth, (op,)) for op in _hmodel().enabled(_hmodel().fresh())]),
                      runner="run_hist"),
                Space("helpers", {"signatures": [list(k) for k in BODIES], "forms": FORMS}, cases, runner="run_case"),
                Space(f"enumerated-bodies<={nmax}", {"body_grammar": "E1 productions attr op + app tup const First Count over the "
                                                     "parameters (x: Jet[, y: Int]); every admissible naming of inner binders from "
                                                     "{x, y, t}", "size": nmax, "forms": ["def1"] if Q else ["def1", "lambda"]},
                      (lambda nmax=nmax, Q=Q: enumerated(nmax, ("def1",) if Q else ("def1", "lambda"))), runner="run_enum")]

    def run_hist(self, payload):
        from .. import explore

        _, depth, prefix = payload
        prefix = tuple(tuple(op) if isinstance(op, list) else op for op in prefix)
        r = explore.explore(_hmodel(), prefix, depth)
        res = {"n": r["trans"], "nt": [f"hist|{prefix}|{i}" for i in range(min(3, r["trans"]))], "oc": [],
               "tags": dict(r["ops"]), "viol": [],
               "sample_text": f"subtree below {prefix}: {len(r['states'])} states, {r['trans']} transitions"}
        for v in r["viol"]:
            res["viol"].append({"kind": v["kind"], "canon": repr(v["hist"]), "msg": v["msg"]})
        return res

    def run_enum(self, payload):
        sig, body, form, site = payload
        return self._run(tuple(sig), body, form, site, None, repr(payload))

    def run_case(self, payload):
        sig, b, form, s, o = payload
        sig = tuple(sig)
        if form == "raw":
            return self._run((), RAW[b][0], "raw", RAW[b][1].replace("{", "{{").replace("}", "}}"), None, repr(payload))
        return self._run(sig, BODIES[sig][b], form, SITES[sig][s], o, repr(payload))

    def _run(self, sig, body, form, site_tpl, o, canon):
        from func_adl import EventDataset

        params = ["x", "y"][:len(sig)]
        res = {"n": 0, "nt": [canon], "oc": [], "tags": {}, "viol": []}
        g = {"len": len, "list": list, "abs": abs, "EFFECTS": []}
        pre = []
        flat = False
        own_build = False
        if form == "raw":
            text = body  # the helper definitions written out in full
            if text.startswith("FLAT:"):
                flat, text = True, text[5:]
            own_build = "def build(" in text or "build = " in text  # the case brings its own build(); the site is the REFERENCE body (locals written out)
        elif o is None:
            text = helper_def("h", params, body, form)
        else:
            text = helper_def("g", params, body, form) + helper_def("h", params, NESTED[sig][o], form)
        if form == "xmod":
            # the helper module (its own globals, its own source file)
            _N[0] += 1
            hfn = f"<c05hmod{_N[0]}>"
            linecache.cache[hfn] = (len(text), None, text.splitlines(True), hfn)
            pre.append(hfn)
            hg = {"len": len, "list": list, "abs": abs}
            exec(compile(text, hfn, "exec"), hg)
            g.update({k: v for k, v in hg.items() if k in ("h", "g")})
            text = "OFF = 99\n"
        elif form == "closure":
            text = "OFF = 99\n" + text
        site = site_tpl.format(H="h")
        if site.startswith("REF:"):
            site = site[4:]
        lam_src = f"lambda e: {site}"
        if not own_build:
            text += f"def build(ds):\n    return ds.Select(\n        {lam_src}\n    )\n"
        _N[0] += 1
        fn = f"<c05mod{_N[0]}>"
        linecache.cache[fn] = (len(text), None, text.splitlines(True), fn)
        exec(compile(text, fn, "exec"), g)

        class DS(EventDataset):
            async def execute_result_async(self, a, title=None):
                return a

        try:
            st = g["build"](DS())
        except Exception as e:
            res["oc"].append("raised")
            res["viol"].append({"kind": f"raised:{type(e).__name__}", "canon": canon, "msg": f"{text!r}: {e}"[:300]})
            return res
        finally:
            linecache.cache.pop(fn, None)
            for f_ in pre:
                linecache.cache.pop(f_, None)
        emitted = st.query_ast.args[1]
        helpers = {k: v for k, v in g.items() if k in ("h", "g", "k")}
        free = refsem.free_names(emitted) - set(helpers) - {"len", "list", "abs"}
        shown = _unparse(emitted)
        if free:
            res["oc"].append("unbound")
            res["viol"].append({"kind": "unbound-name-after-inlining", "canon": canon,
                                "msg": f"{sorted(free)} free in {shown[:220]!r}  (helper {body!r}, call {site!r})"})
            return res
        inlined = not (refsem.free_names(emitted) & set(helpers))
        try:
            fq = refsem.compile_query(ast.Call(ast.Name("Select", ast.Load()), [ast.Name("ds", ast.Load()), emitted], []),
                                      extra_env=dict(helpers, list=list, abs=abs))
        except Exception as e:
            res["viol"].append({"kind": "emitted-lambda-uncompilable", "canon": canon, "msg": f"{e}: {shown}"[:200]})
            return res
        orig = eval(compile(ast.parse(lam_src, mode="eval"), "<orig>", "eval"), g)
        nok = 0
        for d in refsem.datasets(False):
            del g["EFFECTS"][:]
            try:
                want = ("ok", refsem.norm(refsem.Seq(d).Select(orig)))
            except Exception:
                continue
            nok += 1
            eff_want = list(g["EFFECTS"])
            del g["EFFECTS"][:]
            got = refsem.evaluate(fq, d)
            res["n"] += 1
            if flat and got[0] == "ok":
                want, got = ("ok", sorted(_leaves(want[1]), key=repr)), ("ok", sorted(_leaves(got[1]), key=repr))
            if got == want and sorted(g["EFFECTS"]) != sorted(eff_want):
                res["oc"].append("effects-differ")
                res["viol"].append({"kind": "helper-statement-dropped", "canon": canon,
                                    "msg": f"helper {text.split('def build')[0]!r} call {site!r} emitted {shown[:160]!r}: python runs the "
                                           f"helper's first statement {len(eff_want)} times, the emitted expression {len(g['EFFECTS'])}"})
                return res
            if got != want:
                res["oc"].append("mismatch")
                res["viol"].append({"kind": "inlined-expression-computes-something-else", "canon": canon,
                                    "msg": f"helper {body!r} call {site!r} emitted {shown[:200]!r}: python "
                                           f"{str(want[1])[:90]} emitted {str(got[1])[:90]}"})
                return res
        if not nok:
            raise RuntimeError(f"harness: original fails everywhere: {text}")
        res["oc"].append("inlined-faithfully" if inlined else "left-as-call")
        return res

    def render(self, space_name, payload):
        return repr(payload)


def _leaves(v):
    if isinstance(v, (list, tuple)):
        out = []
        for x in v:
            out += _leaves(x)
        return out
    return [v]


def _unparse(a):
    try:
        return ast.unparse(a)
    except Exception:
        return ast.dump(a)


ENUM_SITES = {
    ("Jet",): ["e.jets.Select(lambda j: {H}(j))", "e.jets.Select(lambda t: {H}(t))", "e.jets.Select(lambda x: {H}(x=x))"],
    ("Jet", "Int"): ["e.jets.Select(lambda j: {H}(j, e.a))", "e.jets.Select(lambda t: {H}(t, t.pt))",
                     "e.jets.Select(lambda y: {H}(y=y.eta, x=y))", "e.jets.Select(lambda x: {H}(x, x.eta + e.a))"],
}


def enumerated(nmax, forms):
    g = T.Grammar(prods=frozenset("attr op bin app tup const first count".split()), seq_attrs=("tr",), int_attrs=("pt",),
                  forms=("m",), count_forms=("m",))
    out = []
    for sig, ctx, names in ((("Jet",), (T.JET,), ("x",)), (("Jet", "Int"), (T.JET, T.INT), ("x", "y"))):
        bodies = set()
        for n in range(1, nmax + 1):
            for t, x in g.gen(ctx, n):
                if T.has(x, {"ds"}) or not T.has(x, {"var"}):
                    continue
                for nm in T.namings(x, ("x", "y", "t"), names):
                    bodies.add(T.render(x, nm, names))
        for b in sorted(bodies, key=lambda z: (len(z), z)):
            for form in forms:
                for site in ENUM_SITES[sig]:
                    out.append((sig, b, form, site))
    return out


CHECK = C05()
