"""C19 - aggregate shortcuts lower to equivalent folds."""
import ast
import copy
import functools
import itertools

from .. import refsem
from ..core import Check, Space

AGG = ("len", "Count", "Sum", "Max", "Min")
PY = {
    "len": lambda s: len(list(s)), "Count": lambda s: len(list(s)), "Sum": lambda s: sum(list(s)),
    "Max": lambda s: max(list(s) + [0]), "Min": lambda s: min(list(s) + [0]),
}


def gen_terms(nmax):
    """(kind, src, size) for kind in S (sequence of ints) / I (int); binder names by depth."""
    memo = {}
    names = ("v", "acc", "w")

    def gen(kind, depth, n):
        key = (kind, depth, n)
        if key in memo:
            return memo[key]
        out = []
        if n == 1:
            if kind == "S":
                out.append("ds")
            else:
                out.append("1")
                for d in range(depth):
                    out.append(names[d])
        else:
            m = n - 1
            if kind == "I":
                for a in AGG:
                    for s in gen("S", depth, m):
                        out.append(f"{a}({s})")
                for n1 in range(1, m):
                    for x in gen("I", depth, n1):
                        for y in gen("I", depth, m - n1):
                            out.append(f"({x} + {y})")
            elif depth < len(names):
                v = names[depth]
                for n1 in range(1, m):
                    for s in gen("S", depth, n1):
                        for b in gen("I", depth + 1, m - n1):
                            out.append(f"Select({s}, lambda {v}: {b})")
                        if m - n1 >= 3:
                            for k in range(1, m - n1 - 1):
                                for x in gen("I", depth + 1, k):
                                    for y in gen("I", depth + 1, m - n1 - 1 - k):
                                        out.append(f"Where({s}, lambda {v}: {x} > {y})")
        memo[key] = out
        return out

    res = []
    for n in range(1, nmax + 1):
        for k in ("I", "S"):
            for s in gen(k, 0, n):
                if any(a + "(" in s for a in AGG):
                    res.append(s)
    return res


def int_sequences(maxlen=4, vals=(-2, -1, 0, 1, 2)):
    out = []
    for n in range(maxlen + 1):
        out += [list(t) for t in itertools.product(vals, repeat=n)]
    return out


HOSTS = ["Aggregate({X}, 0, lambda a, v: a + v)", "Aggregate(ds, {X}, lambda a, v: a + v)", "Aggregate(ds, 0, lambda a, v: a + {X})",
         "Aggregate(Select(ds, lambda v: {X}), 0, lambda a, v: a + {X})", "ds.Aggregate({X}, lambda a, v: a + {X})",
         "f({X})", "f(k={X})", "f(*{X})", "({X}).m()", "obj.Count({X})", "obj.len(k={X})", "z[{X}]", "({X})[0]", "{{'k': {X}}}",
         "[{X}, {X}]", "-{X}", "{X} if {X} > 1 else {X}", "{X} and c", "lambda e, n={X}: e + n", "[{X} for a in b if {X} > 1]",
         "f'{{{X}}}'", "(y := {X})", "{X}.attr", "({X})(1)", "First({X})", "Where(ds, lambda v: {X} > v)",
         "SelectMany(ds, lambda v: Select(v.js, lambda w: {X}))",
         # lambda parameters spelled like the shortcut names, visited before / after / around a real shortcut call
         "[Select(ds, lambda Sum: Sum + 1), {X}]", "[{X}, Select(ds, lambda Sum: Sum + 1)]",
         "f(lambda Count, len: Count, {X}, lambda Max, Min: Max)", "(lambda len: len)({X})",
         "Select(ds, lambda Sum: Sum + {X})", "Select(Select(ds, lambda Count: Count), lambda v: {X})",
         # a shortcut below two or more chained attributes / below a call between attributes
         "({X}).real.imag", "f({X}).inner.value", "({X}).a.b.c(1)", "box({X}).get().inner.value", "obj.a.b.m({X}).c.d",
         # a shortcut-named call with ANOTHER number of arguments directly as the sequence of a real shortcut (and the reverse)
         "Sum(Max({X}, {X}))", "len(Count())", "Max(Sum({X}, 1, 2))", "Count(Min(k={X}))", "Sum(Max({X}, {X}), 1)",
         "Min(Sum(Max({X}, 1)))", "Sum(len())",
         # keyword and starred arguments of ordinary calls with one positional argument
         "pick({X}, n={X})", "pick(ds, n={X})", "pick(*[{X}, ds])", "pick(Select(ds, lambda v: {X}), n=2)", "Max(ds, key={X})", "Sum(*{X})",
         # one plain argument next to starred ones: still not the one-argument call
         "Sum({X}, *ps)", "Sum(*ps, {X})", "Max({X}, *[{X}])", "len({X}, *ps, *qs)", "Count(*ps, {X}, *qs)"]
HOST_XS = ["Count(ds)", "len(Select(ds, lambda v: v + 1))", "Sum(ds)", "Max(Where(ds, lambda v: v > Min(ds)))", "Count(Count(ds))",
           # written-out sequences (also with starred entries) are sequences like any other
           "len([1, 2])", "Count((ds, ds))", "len([*ds, 0])", "Sum([])", "Max((1,))", "len([v for v in ds])"]


def host_cases():
    return sorted({h.format(X=x) for h in HOSTS for x in HOST_XS})


def shared_tree(k):
    "trees in which ONE shortcut call object is referenced from several places"
    n = ast.parse("Count(Select(ds, lambda v: Sum(v.xs)))", mode="eval").body
    m = ast.parse("Max(ds)", mode="eval").body
    L = ast.Load()
    return [
        lambda: ast.BinOp(n, ast.Mult(), n),
        lambda: ast.Tuple([n, m, n, m], L),
        lambda: ast.Call(ast.Name("f", L), [n], [ast.keyword("k", n)]),
        lambda: ast.Call(ast.Name("Sum", L), [ast.Call(ast.Name("Select", L), [ast.Name("ds", L), ast.Lambda(
            ast.arguments(posonlyargs=[], args=[ast.arg("v")], kwonlyargs=[], kw_defaults=[], defaults=[]), ast.BinOp(m, ast.Add(), m))], [])], []),
        lambda: ast.IfExp(ast.Compare(n, [ast.Gt()], [m]), n, m),
    ][k]()


class _Reuse(Exception):
    pass


OTHER_NAMES = ["foo", "e", "n", "t", "l", "C", "le", "en", "ount", "Coun", "lenCount", "Counts", "mySum", "Su", "um", "Ma",
               "ax", "Mi", "in", "Len", "count", "sum", "max", "min", "SUM", "Summ"]


class _RefLower(ast.NodeTransformer):
    """independent reference: exactly the one-argument calls are lowered; placeholder fold lambdas.  A single STARRED
    argument (Sum(*parts)) is an unknown number of arguments: the statement does not say - both readings are accepted"""

    def __init__(self, starred_is_one_argument=False):
        self.starred = starred_is_one_argument

    def visit_Call(self, node):
        self.generic_visit(node)
        if isinstance(node.func, ast.Name) and node.func.id in AGG and len(node.args) == 1 and not node.keywords and \
                (self.starred or not isinstance(node.args[0], ast.Starred)):
            kind = {"len": "count", "Count": "count", "Sum": "sum", "Max": "max", "Min": "min"}[node.func.id]
            return ast.Call(ast.Name("Aggregate", ast.Load()),
                            [node.args[0], ast.Constant(0), ast.Name(f"__fold_{kind}", ast.Load())], [])
        return node


_PAIRS = [(a, v) for a in (-3, 0, 2, 5) for v in (-4, 0, 2, 7)]


def classify_fold(lam):
    try:
        f = eval(compile(ast.fix_missing_locations(ast.Expression(copy.deepcopy(lam))), "<fold>", "eval"), {})
        got = [f(a, v) for a, v in _PAIRS]
    except Exception:
        return "other"
    for kind, g in (("count", lambda a, v: a + 1), ("sum", lambda a, v: a + v),
                    ("max", lambda a, v: max(a, v)), ("min", lambda a, v: min(a, v))):
        if got == [g(a, v) for a, v in _PAIRS]:
            return kind
    return "other"


class _NormFolds(ast.NodeTransformer):
    def visit_Call(self, node):
        self.generic_visit(node)
        if isinstance(node.func, ast.Name) and node.func.id == "Aggregate" and len(node.args) == 3 \
                and isinstance(node.args[2], ast.Lambda) and len(node.args[2].args.args) == 2 \
                and not any(isinstance(x, ast.Call) for x in ast.walk(node.args[2])):
            node.args[2] = ast.Name(f"__fold_{classify_fold(node.args[2])}", ast.Load())
            if isinstance(node.args[1], ast.Constant) and not isinstance(node.args[1].value, (str, bytes)) \
                    and node.args[1].value == 0:
                node.args[1] = ast.Constant(0)  # 0, 0.0, False: any zero seed (the values are compared separately)
        return node


class C19(Check):
    pid = "C19"
    title = "Aggregate shortcuts lower to equivalent folds"
    rule = ("every expression over Select/Where/+/constants and the five shortcut names in one-argument call "
            "position (nested in sequence arguments and inside lambdas, binder names v/acc/w) up to the stated "
            "size is lowered by the real aggregate_node_transformer and evaluated by CPython (Aggregate = "
            "functools.reduce) on EVERY integer sequence of length <= 4 over {-2..2} against Python's "
            "len / sum / max(seq+[0]) / min(seq+[0]); for every shortcut occurrence every decoration "
            "{no argument, two arguments, keyword argument, method form, bare name} is checked structurally "
            "against an independent reference lowering (fold lambdas compared by behaviour). "
            "Non-trivial = distinct (expression, decoration)")
    assumptions = ["Aggregate(seq, init, f) is a left fold", "fold lambdas are compared by behaviour on 16 "
                   "(acc, v) pairs, not by text"]

    def spaces(self, tier):
        Q = tier == "quick"
        n = 8 if Q else 9
        return [
            Space(f"semantic<={n}", {"size": f"<= {n} nodes", "sequences": "all 781 int sequences len<=4 over -2..2"},
                  (lambda n=n: gen_terms(n)), runner="run_sem"),
            Space("hosts", {"hosts": len(HOSTS), "shortcut expressions": HOST_XS, "note": "a shortcut in every syntactic position "
                            "incl. inside an explicit Aggregate call (sequence, seed, fold lambda)"}, host_cases, runner="run_host"),
            Space("shared-nodes", {"trees": 5, "note": "one shortcut call object referenced from several parents"},
                  (lambda: list(range(5))), runner="run_shared"),
            Space(f"decorated<={n - 1}", {"size": f"<= {n - 1} nodes", "decorations": "0 args, 2 args, keyword, method, bare name"},
                  (lambda n=n: gen_terms(n - 1)), runner="run_dec"),
        ]

    def run_host(self, src):
        res = {"n": 1, "nt": [src], "oc": [], "tags": {}, "viol": []}
        self._structural(ast.parse(src, mode="eval").body, src, res)
        return res

    def run_shared(self, k):
        from func_adl.ast.aggregate_shortcuts import aggregate_node_transformer

        res = {"n": 1, "nt": [f"shared|{k}"], "oc": ["shared"], "tags": {}, "viol": []}
        tree = shared_tree(k)
        text = ast.unparse(tree)
        want = ast.dump(_NormFolds().visit(_RefLower().visit(ast.parse(text, mode="eval").body)))
        try:
            r = aggregate_node_transformer().visit(tree)
        except Exception as e:
            res["viol"].append({"kind": f"raised:{type(e).__name__}", "canon": f"shared|{k}", "msg": str(e)[:200]})
            return res
        got = ast.dump(_NormFolds().visit(ast.parse(ast.unparse(r), mode="eval").body))
        if got != want:
            res["viol"].append({"kind": "shared-shortcut-not-lowered-everywhere", "canon": f"shared|{k}",
                                "msg": f"{text} -> {ast.unparse(r)[:220]}"})
        return res

    def _lower(self, q):
        from func_adl.ast.aggregate_shortcuts import aggregate_node_transformer

        r = aggregate_node_transformer().visit(copy.deepcopy(q))
        # one transformer object used for several queries (first one without any shortcut) must behave the same
        t = aggregate_node_transformer()
        t.visit(ast.parse("a + b.c(d)", mode="eval").body)
        t.visit(ast.parse("Select(ds, lambda Sum, Count, len, Max, Min: Sum + Count)", mode="eval").body)
        r2 = t.visit(copy.deepcopy(q))
        r3 = t.visit(copy.deepcopy(q))
        if ast.dump(r2) != ast.dump(r) or ast.dump(r3) != ast.dump(r):
            raise _Reuse(f"a re-used transformer object gives {ast.unparse(r2)[:120]} instead of {ast.unparse(r)[:120]}")
        return r

    def _structural(self, q, canon, res):
        before = ast.dump(q)
        try:
            r = self._lower(q)
        except _Reuse as e:
            res["oc"].append("reuse-differs")
            res["viol"].append({"kind": "reused-transformer-object-behaves-differently", "canon": canon, "msg": str(e)})
            return None
        except Exception as e:
            res["oc"].append("raised")
            res["viol"].append({"kind": f"raised:{type(e).__name__}", "canon": canon, "msg": str(e)[:200]})
            return None
        if ast.dump(q) != before:
            raise RuntimeError("harness: deepcopy was mutated")
        ref = _NormFolds().visit(_RefLower().visit(copy.deepcopy(q)))  # folds the user wrote are classified alike
        ref2 = _NormFolds().visit(_RefLower(True).visit(copy.deepcopy(q)))
        got = _NormFolds().visit(copy.deepcopy(r))
        if ast.dump(got) not in (ast.dump(ref), ast.dump(ref2)):
            res["oc"].append("struct-diff")
            res["viol"].append({"kind": "differs-from-reference-lowering", "canon": canon,
                                "msg": f"got {ast.unparse(got)[:220]} expected {ast.unparse(ref)[:220]}"})
            return None
        res["oc"].append("struct-ok")
        return r

    def run_sem(self, src):
        res = {"n": 0, "nt": [src], "oc": [], "tags": {}, "viol": []}
        q = ast.parse(src, mode="eval").body
        r = self._structural(q, src, res)
        if r is None:
            return res
        env0 = dict(refsem.BASE_ENV)
        env0.update(PY)
        f0 = refsem.compile_query(q, extra_env=env0)
        f1 = refsem.compile_query(r, extra_env={"Aggregate": lambda s, i, f: functools.reduce(f, s, i)})
        for seq in _SEQS:
            d = refsem.Seq(seq)
            a = refsem.evaluate(f0, d)
            b = refsem.evaluate(f1, d)
            res["n"] += 1
            if a != b:
                res["oc"].append("value-diff")
                res["viol"].append({"kind": "value-mismatch", "canon": src,
                                    "msg": f"seq={seq}: python -> {a[1]!r:.80} lowered -> {b[1]!r:.80}"})
                break
        else:
            res["oc"].append("value-equal")
        for a in AGG:
            if a + "(" in src:
                res["tags"][a] = res["tags"].get(a, 0) + 1
        return res

    def run_dec(self, src):
        res = {"n": 0, "nt": [], "oc": [], "tags": {}, "viol": []}
        q = ast.parse(src, mode="eval").body
        calls = [n for n in ast.walk(q) if isinstance(n, ast.Call) and isinstance(n.func, ast.Name)
                 and n.func.id in AGG]
        for i, c in enumerate(calls):
            seq = c.args[0]
            name = c.func.id
            decos = {
                "noargs": lambda: (setattr(c, "args", [])),
                "twoargs": lambda: (setattr(c, "args", [seq, copy.deepcopy(seq)])),
                "keyword": lambda: (setattr(c, "args", []), setattr(c, "keywords", [ast.keyword("seq", seq)])),
                "method": lambda: (setattr(c, "func", ast.Attribute(seq, name, ast.Load())), setattr(c, "args", [])),
                "method1": lambda: (setattr(c, "func", ast.Attribute(ast.Name("obj", ast.Load()), name, ast.Load()))),
                "barename": lambda: (setattr(c, "func", ast.Name("foo", ast.Load())),
                                     setattr(c, "args", [ast.Name(name, ast.Load()), seq])),
            }
            for other in OTHER_NAMES:
                decos["other:" + other] = (lambda other=other: setattr(c, "func", ast.Name(other, ast.Load())))
            for dn, apply in decos.items():
                saved = (c.func, c.args, c.keywords)
                apply()
                canon = f"{src}|{i}:{dn}"
                res["nt"].append(canon)
                res["n"] += 1
                self._structural(q, canon, res)
                c.func, c.args, c.keywords = saved
                res["tags"][dn] = res["tags"].get(dn, 0) + 1
        return res


_SEQS = int_sequences()
CHECK = C19()
