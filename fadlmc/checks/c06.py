"""C06 - comprehension and data-class sugar lowers to equivalent queries."""
import ast
import copy
import inspect
import itertools
import linecache
import sys
import types

from .. import qsem, refsem
from ..core import Check, Space

# ------------------------------------------------------------------------------------ comprehensions
CONDS = {"Jet": ["{x}.pt > 1", "{x}.eta > {o}.a", "len([t for t in {x}.tr if t.q > 0]) > 0", "{x}.pt > {x}.eta"],
         "Trk": ["{x}.q > 1", "{x}.q > {o}.a"]}
ELTS = {"Jet": ["{x}.pt", "{x}", "{o}", "{x}.pt + {o}.a", "({x}.pt, {x}.eta)", "[t.q for t in {x}.tr]",
                "len([t for t in {x}.tr if t.q > 1])", "[t.q + {x}.pt for t in {x}.tr if t.q > {x}.eta]"],
        "Trk": ["{x}.q", "{x}.q + {o}.a", "{x}", "{o}"]}
ITERS = [("Jet", "{o}.jets"), ("Trk", "{o}.trks"), ("Jet", "[j2 for j2 in {o}.jets if j2.pt > 0]"),
         ("Jet", "(j3 for j3 in {o}.jets)")]


def comprehensions(max_ifs, names):
    "source of comprehension expressions over the outer variable o='e' (an event)"
    out = []
    for kind in ("list", "gen"):
        for typ, it in ITERS:
            for x in names:
                for elt in ELTS[typ]:
                    for nif in range(0, max_ifs + 1):
                        for conds in itertools.permutations(CONDS[typ], nif):
                            if nif == 3 and conds[0] > conds[1]:
                                continue  # order matters semantically only pairwise; keep half of the triples
                            ifs = "".join(f" if {c.format(x=x, o='e')}" for c in conds)
                            # the iterable is evaluated in the enclosing scope: outer e even when x == 'e'
                            body = f"{elt.format(x=x, o=('e' if x != 'e' else 'e'))} for {x} in {it.format(o='e')}{ifs}"
                            if x == "e" and (elt in ("{o}",) or "e.a" in body.split(" for ")[0] or any("e.a" in c for c in conds)):
                                continue  # inside, 'e' is the target: outer references are not expressible
                            out.append(f"[{body}]" if kind == "list" else f"({body})")
    return sorted(set(out))


WRAPS = [("Select", "{c}"), ("Select", "({c}, e.a)"), ("Select", "len(list({c})) + 1"), ("SelectMany", "{c}"),
         ("Where", "len(list({c})) > 1"), ("Select", "[z for z in {c}]")]


class _Gen2List(ast.NodeTransformer):
    "reference side only: make generator results comparable as lists"


def _py_value(lam_src, data, op):
    "what Python computes: the user's lambda applied by the in-memory operator"
    f = eval(compile(ast.parse(lam_src, mode="eval"), "<user>", "eval"), {"len": len, "list": list})
    return getattr(refsem.Seq(data), op)(f)


# ------------------------------------------------------------------------------------ dataclass sugar
def dc_models():
    out = []
    for n in (1, 2, 3):
        for ndef in range(0, n + 1):
            for kind in ("dataclass", "namedtuple", "dc-initfalse", "dc-kwonly", "dc-allkwonly", "nt-subclass", "nt-collections",
                         "nt-collections-subclass", "dc-subclass", "dc-subclass-base-first"):
                out.append((kind, n, ndef))
    return out


def dc_source(kind, n, ndef):
    fields = []
    for i in range(n):
        d = f" = {100 + i}" if i >= n - ndef else ""
        fields.append(f"    f{i}: int{d}")
    if kind == "dc-initfalse":
        # a field that is not a constructor parameter sits between the others
        fields.insert(min(1, len(fields)), "    hidden: int = field(init=False, default=7)")
        return "from dataclasses import dataclass, field\n@dataclass\nclass DC:\n" + "\n".join(fields) + "\n"
    if kind == "dc-kwonly":
        # the first field is keyword-only: the signature lists it last
        fields.insert(0, "    kw: int = field(default=9, kw_only=True)")
        return "from dataclasses import dataclass, field\n@dataclass\nclass DC:\n" + "\n".join(fields) + "\n"
    if kind == "nt-subclass":
        # a class derived from a typing.NamedTuple class
        return "from typing import NamedTuple\nclass Base(NamedTuple):\n" + "\n".join(fields) + "\nclass DC(Base):\n    pass\n"
    if kind in ("nt-collections", "nt-collections-subclass"):
        names = [f"f{i}" for i in range(n)]
        dflt = [100 + i for i in range(n - ndef, n)]
        src = f"from collections import namedtuple\nNT0 = namedtuple('DC', {names!r}, defaults={dflt!r})\n"
        return src + ("DC = NT0\n" if kind == "nt-collections" else "class DC(NT0):\n    pass\n")
    if kind in ("dc-subclass", "dc-subclass-base-first"):
        # fields declared on a base dataclass and on the subclass
        base = "from dataclasses import dataclass\n@dataclass\nclass Base:\n" + ("\n".join(fields[:1]) if fields else "    pass") + "\n"
        rest = "\n".join(fields[1:]) if len(fields) > 1 else "    pass"
        return base + "@dataclass\nclass DC(Base):\n" + rest + "\n"
    if kind == "dc-allkwonly":
        # every field is keyword-only: no argument can be given by position
        return "from dataclasses import dataclass\n@dataclass(kw_only=True)\nclass DC:\n" + "\n".join(fields) + "\n"
    if kind == "dataclass":
        return "from dataclasses import dataclass\nfrom typing import NamedTuple\n@dataclass\nclass DC:\n" + "\n".join(fields) + "\n"
    return "from dataclasses import dataclass\nfrom typing import NamedTuple\nclass DC(NamedTuple):\n" + "\n".join(fields) + "\n"


def dc_shapes(n):
    out = []
    for npos in range(0, n + 2):  # n+1 = surplus positional
        rest = list(range(min(npos, n), n))
        for k in range(0, len(rest) + 1):
            for sub in itertools.combinations(rest, k):
                for order in itertools.permutations(sub):
                    out.append((npos, tuple(order), None))
    for npos in range(1, n + 1):
        out.append((npos, (0,), None))  # a field given by position AND by keyword: one value too many for it
        if npos >= 2:
            out.append((npos, (npos - 1,), None))
    out.append((0, (), "zz"))  # unknown keyword
    out.append((1, (), "zz"))
    return out


_N = [0]


class C06(Check):
    pid = "C06"
    title = "Comprehension and data-class sugar lowers to equivalent queries"
    rule = ("(A) every list comprehension / generator expression with one for clause built from 4 iterables (two "
            "attributes, a nested comprehension, a nested generator), 7+3 element expressions (incl. nested "
            "comprehensions in element position and outer references), every ordered selection of 0..3 if clauses "
            "(incl. a nested comprehension in condition position), target name distinct from or equal to the outer "
            "parameter, placed in 6 positions (Select body, inside a tuple, argument of len, SelectMany body, Where "
            "filter, iterable of another comprehension): resolve_syntatic_sugar's output and the full "
            "Select/Where/SelectMany path (lambda as string, ast, callable) are evaluated by CPython on every dataset "
            "and compared with what Python computes for the user's lambda. (B) every dataclass / NamedTuple with 1..3 "
            "fields and every number of defaulted trailing fields, every constructor call shape (positional count x "
            "keyword subset x keyword order, plus surplus positional and unknown keyword): the lowered Dict must bind "
            "keys exactly as inspect.signature(cls).bind does; malformed uses (surplus, unknown keyword, tuple "
            "target, async for) must raise ValueError. Non-trivial = distinct (sugar expression, position)")
    assumptions = ["generator results are compared as lists", "keys for omitted defaulted fields are not demanded",
                   "a call that omits a required field is outside the listed malformed uses (either outcome)"]

    def spaces(self, tier):
        Q = tier == "quick"
        return [
            Space("comprehensions", {"max_ifs": 2 if Q else 3, "positions": len(WRAPS), "names": ["j", "e"]},
                  (lambda Q=Q: [(c, w) for c in comprehensions(2 if Q else 3, ("j", "e")) for w in range(len(WRAPS))]),
                  runner="run_comp"),
            Space("constructors", {"fields": "1..3", "kinds": ["dataclass", "NamedTuple"]},
                  (lambda: [(m, s) for m in dc_models() for s in dc_shapes(m[1])]), runner="run_dc"),
            Space("constructors-in-queries", {"calls": self.CQ_CALLS, "uses": self.CQ_USES, "path": "real Select with a Python "
                                              "callable in a generated module (helpers inlined, constructor used twice)"},
                  self._cq_cases, runner="run_cq"),
            Space("malformed-comprehensions", {"forms": ["tuple target", "async for", "two for clauses (outside: accepted either way)"]},
                  [("tuple", 0), ("async", 0), ("tuple-nested", 0)], runner="run_malformed"),
        ]

    # ------------------------------------------------------------------ A
    def run_comp(self, payload):
        from func_adl import EventDataset
        from func_adl.ast.syntatic_sugar import resolve_syntatic_sugar

        comp, wi = payload
        op, tpl = WRAPS[wi]
        body = tpl.format(c=comp)
        lam_src = f"lambda e: {body}"
        canon = f"{op}|{lam_src}"
        res = {"n": 0, "nt": [canon], "oc": [], "tags": {}, "viol": []}
        datasets = refsem.datasets(False)
        want = []
        for d in datasets:
            try:
                want.append(("ok", refsem.norm(_py_value(lam_src, d, op))))
            except Exception as e:
                want.append(("err", type(e).__name__))
        if not any(w[0] == "ok" for w in want):
            raise RuntimeError(f"harness: the user's lambda fails on every dataset: {lam_src} {want[-1]}")

        def judge(label, lam_ast):
            q = ast.Call(ast.Name(op, ast.Load()), [ast.Name("ds", ast.Load()), lam_ast], [])
            try:
                f = refsem.compile_query(q, extra_env={"list": list})
            except Exception as e:
                res["viol"].append({"kind": f"{label}:uncompilable", "canon": canon, "msg": str(e)[:150]})
                return
            leftover = [n for n in ast.walk(lam_ast) if isinstance(n, (ast.ListComp, ast.GeneratorExp))]
            if leftover:
                res["viol"].append({"kind": f"{label}:comprehension-not-lowered", "canon": canon,
                                    "msg": ast.unparse(leftover[0])[:150]})
                return
            for d, w in zip(datasets, want):
                if w[0] != "ok":
                    continue
                got = refsem.evaluate(f, d)
                res["n"] += 1
                if got != w:
                    res["oc"].append("mismatch")
                    res["viol"].append({"kind": f"{label}:value-mismatch", "canon": canon,
                                        "msg": f"python {str(w[1])[:120]} ; lowered {str(got[1])[:120]} ; {ast.unparse(lam_ast)[:200]}"})
                    return
            res["oc"].append("equal")

        lam_ast = ast.parse(lam_src, mode="eval").body
        try:
            lowered = resolve_syntatic_sugar(copy.deepcopy(lam_ast))
        except Exception as e:
            res["viol"].append({"kind": f"sugar-raised:{type(e).__name__}", "canon": canon, "msg": str(e)[:150]})
            return res
        judge("resolve_syntatic_sugar", lowered)

        class DS(EventDataset):
            async def execute_result_async(self, a, title=None):
                return a

        for mode in ("str", "ast", "call"):
            try:
                if mode == "str":
                    s = getattr(DS(), op)(lam_src)
                elif mode == "ast":
                    s = getattr(DS(), op)(copy.deepcopy(lam_ast))
                else:
                    _N[0] += 1
                    fn = f"<c06mod{_N[0]}>"
                    text = f"def build(ds):\n    return ds.{op}(lambda e: {body})\n"
                    linecache.cache[fn] = (len(text), None, text.splitlines(True), fn)
                    g = {}
                    exec(compile(text, fn, "exec"), g)
                    s = g["build"](DS())
                    del linecache.cache[fn]
            except ValueError as e:
                if op == "Where":
                    res["oc"].append("where-refused")  # len(...) > 1 is a comparison: must be accepted
                res["viol"].append({"kind": f"{mode}:refused", "canon": canon, "msg": str(e)[:150]})
                continue
            except Exception as e:
                res["viol"].append({"kind": f"{mode}:raised:{type(e).__name__}", "canon": canon, "msg": str(e)[:150]})
                continue
            judge(mode, s.query_ast.args[1])
        return res

    # ------------------------------------------------------------------ B
    # ------------------------------------------------------------------ C: constructors inside real queries
    CQ_CALLS = ["DC(e.a, e.b)", "DC(e.a, f1=e.b)", "DC(f1=e.b, f0=e.a)", "DC(f0=e.a)", "DC(e.a)", "NT(e.a, e.b)", "NT(f1=e.b, f0=e.a)",
                "NT(e.a, f1=e.b)"]
    CQ_USES = ["{c}.f0", "({c}.f0, {c}.f1)", "h1({c})", "h2({c})", "(lambda x: (x.f0, x.f1, x.f0))({c})", "h3({c}, {c})",
               "e.jets.Select(lambda j: h2({c}))", "[h1({c}) for j in e.jets if {c}.f0 > 0]"]
    CQ_HEAD = ("from dataclasses import dataclass\nfrom typing import NamedTuple\n@dataclass\nclass DC:\n    f0: int\n    f1: int = 5\n"
               "class NT(NamedTuple):\n    f0: int\n    f1: int = 6\n"
               "def h1(x): return x.f0\ndef h2(x): return (x.f0, x.f1, x.f0)\ndef h3(x, y): return (x.f1, y.f0)\n")

    def _cq_cases(self):
        # a defaulted field that the call omits is not a key of the dictionary (assumption 2): such uses read f0 only
        return [(c, u) for c in self.CQ_CALLS for u in self.CQ_USES
                if "f1" in c or c.count(",") == 1 or not any(t in u for t in ("f1", "h2", "h3"))]

    def run_cq(self, payload):
        from func_adl import EventDataset

        call, use = payload
        body = use.format(c=call)
        lam_src = f"lambda e: {body}"
        canon = repr(payload)
        res = {"n": 0, "nt": [canon], "oc": [], "tags": {}, "viol": []}
        _N[0] += 1
        fn = f"<c06cq{_N[0]}>"
        text = self.CQ_HEAD + f"def build(ds):\n    return ds.Select(\n        {lam_src}\n    )\nORIG = (\n    {lam_src}\n)\n"
        linecache.cache[fn] = (len(text), None, text.splitlines(True), fn)
        g = {"len": len, "list": list}

        class DS(EventDataset):
            async def execute_result_async(self, a, title=None):
                return a

        try:
            exec(compile(text, fn, "exec"), g)
            st = g["build"](DS())
        except Exception as e:
            res["oc"].append("raised")
            res["viol"].append({"kind": f"valid-constructor-use-raised:{type(e).__name__}", "canon": canon, "msg": f"{lam_src}: {e}"[:200]})
            return res
        finally:
            linecache.cache.pop(fn, None)
        emitted = st.query_ast.args[1]
        left = [n for n in ast.walk(emitted) if isinstance(n, ast.Call) and isinstance(n.func, (ast.Constant, ast.Name))
                and (getattr(n.func, "value", None) in (g["DC"], g["NT"]) or getattr(n.func, "id", None) in ("DC", "NT"))]
        if left:
            res["oc"].append("not-lowered")
            res["viol"].append({"kind": "constructor-not-lowered", "canon": canon, "msg": ast.dump(left[0])[:150]})
            return res
        try:
            fq = refsem.compile_query(ast.Call(ast.Name("Select", ast.Load()), [ast.Name("ds", ast.Load()), emitted], []),
                                      extra_env={"list": list, "h1": g["h1"], "h2": g["h2"], "h3": g["h3"]})
        except Exception as e:
            res["viol"].append({"kind": "emitted-lambda-uncompilable", "canon": canon, "msg": str(e)[:150]})
            return res
        nok = 0
        for d in refsem.datasets(False):
            try:
                want = ("ok", refsem.norm(refsem.Seq(d).Select(g["ORIG"])))
            except Exception:
                continue
            nok += 1
            got = refsem.evaluate(fq, d)
            res["n"] += 1
            if got != want:
                res["oc"].append("mismatch")
                res["viol"].append({"kind": "lowered-constructor-computes-something-else", "canon": canon,
                                    "msg": f"{lam_src} emitted {ast.unparse(emitted)[:160]!r}: python {str(want[1])[:80]} emitted {str(got[1])[:80]}"})
                return res
        if not nok:
            raise RuntimeError(f"harness: original fails everywhere: {lam_src}")
        res["oc"].append("lowered-faithfully")
        return res

    def pair_menu(self, tier):
        """constructor calls lowered one after the other in ONE process: classes that share module and qualified
        name but have different field lists (a redefined class) must each be bound by their own signature"""
        menu = [(("dataclass", 1, 0), (1, (), None)), (("dataclass", 2, 0), (2, (), None)), (("dataclass", 3, 1), (1, (1,), None)),
                (("dataclass", 3, 3), (0, (2, 0), None)), (("namedtuple", 2, 0), (0, (1, 0), None)),
                (("namedtuple", 3, 0), (3, (), None)), (("dc-kwonly", 2, 0), (1, (1,), None)),
                (("dc-allkwonly", 2, 0), (0, (1, 0), None)), (("dc-initfalse", 2, 0), (2, (), None)),
                (("dataclass", 2, 0), (3, (), None)), (("dataclass", 1, 0), (0, (), "zz"))]
        return [("constructors", "run_dc", m) for m in menu]

    def run_dc(self, payload):
        from func_adl.ast.syntatic_sugar import resolve_syntatic_sugar

        (kind, n, ndef), (npos, kws, unknown) = payload
        g = {}
        exec(dc_source(kind, n, ndef), g)
        DC = g["DC"]
        canon = repr(payload)
        res = {"n": 1, "nt": [canon], "oc": [], "tags": {}, "viol": []}
        if kind == "dc-subclass-base-first":
            # the BASE class is lowered earlier in the same process (then the class derived from it)
            b_lam = ast.Lambda(ast.arguments(posonlyargs=[], args=[ast.arg("e")], kwonlyargs=[], kw_defaults=[], defaults=[]),
                               ast.Call(ast.Constant(g["Base"]), [ast.Constant(1)] if n else [], []))
            try:
                resolve_syntatic_sugar(b_lam)
            except Exception:
                pass
        pos = [ast.Constant(10 + i) for i in range(npos)]
        kw = [ast.keyword(f"f{i}", ast.Constant(10 + i)) for i in kws]
        if unknown:
            kw.append(ast.keyword(unknown, ast.Constant(99)))
        call = ast.Call(ast.Constant(DC), pos, kw)
        lam = ast.Lambda(ast.arguments(posonlyargs=[], args=[ast.arg("e")], kwonlyargs=[], kw_defaults=[], defaults=[]),
                         ast.Tuple([call, ast.Name("e", ast.Load())], ast.Load()))
        try:
            bound = inspect.signature(DC).bind(*[10 + i for i in range(npos)],
                                               **{f"f{i}": 10 + i for i in kws}, **({unknown: 99} if unknown else {}))
            py = ("ok", dict(bound.arguments))
        except TypeError as e:
            py = ("err", str(e))
        malformed = bool(unknown) or npos > n or (py[0] == "err" and ("too many positional" in py[1] or "unexpected keyword" in py[1] or
                                                                  "multiple values" in py[1]))
        try:
            out = resolve_syntatic_sugar(copy.deepcopy(lam))
        except ValueError as e:
            res["oc"].append("ValueError")
            if py[0] == "ok":
                res["viol"].append({"kind": "refused-valid-constructor-call", "canon": canon, "msg": str(e)[:150]})
            return res
        except Exception as e:
            res["oc"].append("raised")
            res["viol"].append({"kind": f"raised:{type(e).__name__}", "canon": canon, "msg": str(e)[:150]})
            return res
        if malformed:
            res["oc"].append("malformed-accepted")
            res["viol"].append({"kind": "malformed-constructor-call-accepted", "canon": canon, "msg": ast.unparse(out)[:150]})
            return res
        if py[0] == "err":
            res["oc"].append("missing-required:either")
            return res
        d = out.body.elts[0]
        if not isinstance(d, ast.Dict):
            res["viol"].append({"kind": "constructor-not-lowered", "canon": canon, "msg": ast.dump(d)[:150]})
            return res
        try:
            got = {ast.literal_eval(k): ast.literal_eval(v) for k, v in zip(d.keys, d.values)}
        except Exception as e:
            res["viol"].append({"kind": "lowered-dict-not-literal", "canon": canon, "msg": str(e)[:100]})
            return res
        if got != py[1] or len(d.keys) != len(got):
            res["oc"].append("binding-differs")
            res["viol"].append({"kind": "field-binding-differs-from-python", "canon": canon, "msg": f"{got} vs {py[1]}"})
        else:
            res["oc"].append("bound-like-python")
        return res

    def run_malformed(self, payload):
        from func_adl.ast.syntatic_sugar import resolve_syntatic_sugar

        kind = payload[0]
        src = {"tuple": "lambda e: [a + b for (a, b) in e.pairs]",
               "tuple-nested": "lambda e: [[a for (a, b) in j.pairs] for j in e.jets]"}.get(kind)
        res = {"n": 1, "nt": [kind], "oc": [], "tags": {}, "viol": []}
        if kind == "async":
            tree = ast.parse("lambda e: [j.pt for j in e.jets]", mode="eval").body
            for n in ast.walk(tree):
                if isinstance(n, ast.comprehension):
                    n.is_async = 1
        else:
            tree = ast.parse(src, mode="eval").body
        try:
            resolve_syntatic_sugar(tree)
            res["oc"].append("accepted")
            res["viol"].append({"kind": "malformed-comprehension-accepted", "canon": kind, "msg": ""})
        except ValueError:
            res["oc"].append("ValueError")
        except Exception as e:
            res["viol"].append({"kind": f"raised:{type(e).__name__}", "canon": kind, "msg": str(e)[:100]})
        return res

    def render(self, space_name, payload):
        return repr(payload)


CHECK = C06()
