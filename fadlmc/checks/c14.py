"""C14 - intermediate tuples and dictionaries are compiled away (shape guarantee)."""
import ast
import copy

from .. import alpha, pkgchains, qsem, qspaces
from ..core import Check, Space

PKG = (ast.Tuple, ast.List, ast.Dict)


def shape_problems(r):
    """R1: no projection applied to a literal package.  R2: every package node is in result
    position (body of a Select lambda on the result spine, through Where to its source, through
    SelectMany into its body, elements of a result package)."""
    allowed = set()

    def mark(n):
        if isinstance(n, PKG):
            allowed.add(id(n))
            for c in (n.values if isinstance(n, ast.Dict) else n.elts):
                mark(c)
        elif isinstance(n, ast.Call) and isinstance(n.func, ast.Name) and len(n.args) == 2 \
                and n.func.id in ("Select", "SelectMany") and isinstance(n.args[1], ast.Lambda):
            mark(n.args[1].body)
        elif isinstance(n, ast.Call) and isinstance(n.func, ast.Name) and n.func.id in ("Where", "First") and n.args:
            mark(n.args[0])

    mark(r)
    probs = []
    for n in ast.walk(r):
        if isinstance(n, (ast.Subscript, ast.Attribute)) and isinstance(n.value, PKG):
            probs.append(("projection-of-literal", ast.unparse(n)[:120]))
        if isinstance(n, PKG) and id(n) not in allowed:
            probs.append(("package-not-in-result-position", ast.unparse(n)[:120]))
    # a projection by constant index/key of a lambda parameter whose stream still produces packages:
    # (detected through R2 on the producer, nothing more to do here)
    return probs


class C14(Check):
    pid = "C14"
    title = "Intermediate tuples and dictionaries are compiled away"
    rule = ("every chain of the slot enumerator pkgchains (stage 1 packages event/jet fields into a "
            "tuple, list or dict, nested to depth 2, via Select or SelectMany; stages 2 and 3 use the "
            "parameter only through full constant projection paths, incl. nested Select/Where over a "
            "packaged sequence that mentions another packaged field), under every admissible binder "
            "naming from {e, j}, plus every query of the E1 'pkg'/'pkg2' slices that is a linear chain, "
            "is simplified by the real code and the result is checked for shape rules R1/R2. "
            "Non-trivial = the input contained a package that had to disappear (not in result position)")
    assumptions = [
        "result position is defined inductively: Select/SelectMany lambda body on the result spine, "
        "Where -> its source, elements of a result package",
        "First/Count are outside the alphabet: the property speaks of Select/Where/SelectMany stages",
        "shape only; equality of results for the same chains is checked under C02 (space pkgchains)",
    ]

    def spaces(self, tier):
        Q = tier == "quick"
        out = [Space("pkgchains" + ("" if Q else "-rich"),
                     {"generator": "pkgchains.chains", "stages": "2..3", "package_depth": "<=2",
                      "binder_names": "every admissible assignment from pool ['e','j']",
                      "field_menu": "small" if Q else "rich"},
                     (lambda Q=Q: pkgchains.all_sources(Q)), runner="run_chain")]
        for sl, hi in (("pkg", 8 if Q else 9), ("pkg2", 9 if Q else 10)):
            out.append(Space(f"{sl}<={hi}:linear", qspaces.describe(sl, 3, hi, qspaces.POOL2),
                             (lambda sl=sl, hi=hi: qspaces.enumerate_sources(
                                 sl, 3, hi, qspaces.POOL2, extra_pred=_is_linear_chain)),
                             runner="run_one"))
        return out

    def _check(self, src, res):
        from func_adl.ast.function_simplifier import simplify_chained_calls

        q = qsem.parse_expr(src)
        try:
            r = simplify_chained_calls().visit(copy.deepcopy(q))
        except Exception as e:
            res["oc"].append(f"raised:{type(e).__name__}")
            res["viol"].append({"kind": f"raised:{type(e).__name__}", "canon": src, "msg": str(e)[:200]})
            return
        res["n"] += 1
        before = shape_problems(q)
        if before:
            res["nt"].append(src)
        probs = shape_problems(r)
        res["oc"].append(("eliminated" if before else "nothing-to-eliminate") if not probs else probs[0][0])
        if probs:
            try:
                shown = ast.unparse(r)
            except Exception:
                shown = ast.dump(r)
            res["viol"].append({"kind": probs[0][0], "canon": src,
                                "msg": f"{probs[0][1]} remains in: {shown[:400]}"})

    def run_chain(self, src):
        res = {"n": 0, "nt": [], "oc": [], "tags": {}, "viol": []}
        for s in alpha.namings_src(src, qspaces.POOL2):
            self._check(s, res)
        return res

    def run_one(self, src):
        res = {"n": 0, "nt": [], "oc": [], "tags": {}, "viol": []}
        self._check(src, res)
        return res


def _is_linear_chain(q):
    "top level is Op(Op(...ds...)) with at least two operators on the spine"
    t = q[1]
    n = 0
    while t[0] == "op":
        n += 1
        t = t[3]
    return n >= 2 and t[0] == "ds"


CHECK = C14()
