"""C09 - callbacks fire at every matching call site and their metadata reaches the stream."""
import ast
import itertools
import sys
import types

from .. import bind
from ..core import Check, Space

BEHAVIOURS = ("identity", "md", "rename", "addarg", "replarg", "md+rename", "rebuild", "md+rebuild")
PLACES = ("class", "method", "both", "both-same", "func", "prop", "proplist", "func+method")

MODEL_SRC = '''
from __future__ import annotations
import ast, copy
from typing import *
from func_adl import func_adl_callback, func_adl_callable, func_adl_parameterized_call
LOG = []
ATTACHED = []
def _act(kind, owner, behaviour):
    def cb(s, a, *params):
        LOG.append((kind, owner, ast.unparse(a), copy.deepcopy(params)))
        for p in params:
            if isinstance(p, list):
                p.append("edited by the callback")  # its own copy of the parameters: nobody else may notice
        b = behaviour
        if "md" in b:
            d = {"cb": kind + ":" + owner, "n": len(ATTACHED)}
            ATTACHED.append(d)
            s = s.MetaData(d)
        if "rebuild" in b:
            # a call node the callback builds itself (same content), not the node it was given nor a copy of it
            a = ast.Call(func=a.func, args=list(a.args), keywords=list(a.keywords))
        if "rename" in b or "addarg" in b or "replarg" in b:
            a = copy.copy(a)
            a.args = list(a.args)
            if "rename" in b:
                if isinstance(a.func, ast.Attribute):
                    a.func = ast.Attribute(a.func.value, a.func.attr + "_" + kind, ast.Load())
                else:
                    a.func = ast.Name(a.func.id + "_" + kind, ast.Load())
            if "addarg" in b:
                a.args.append(ast.Constant("added_" + kind))
            if "replarg" in b and a.args:
                a.args[-1] = ast.Constant("repl_" + kind)
        if params:
            return s, a, float
        return s, a
    return cb
'''


def class_src(name, place, beh, members, inherit=False, generic=False):
    deco_c = f"@func_adl_callback(_act('class', '{name}', '{beh}'))\n" if place in ("class", "both") else ""
    deco_m = f"    @func_adl_callback(_act('method', '{name}', '{beh}'))\n" if place in ("method", "both") else ""
    pre = ""
    if place == "both-same":
        # ONE callback function object decorates the class and its method
        pre = f"_cb_{name} = _act('shared', '{name}', '{beh}')\n"
        deco_c = f"@func_adl_callback(_cb_{name})\n"
        deco_m = f"    @func_adl_callback(_cb_{name})\n"
    if place == "func+method":
        deco_m = f"    @func_adl_callback(_act('method', '{name}', 'md'))\n"
    body = f"{deco_m}    def tgt(self, p: int, q: int = 5) -> float: ...\n"
    body += "    def other(self) -> float: ...\n"
    if place in ("prop", "proplist"):
        body += f"    @func_adl_parameterized_call(_act('prop', '{name}', '{beh}'))\n    @property\n" \
                f"    def par(self): ...\n"
    for m in members:
        body += f"    {m}\n"
    if generic:
        # the methods live on a GENERIC base whose type variable is the return type of tgt; the subclass closes it
        body = body.replace("def tgt(self, p: int, q: int = 5) -> float", "def tgt(self, p: int, q: int = 5) -> _GT")
        return f"{pre}class {name}Base(Generic[_GT]):\n{body}{deco_c}class {name}({name}Base[float]):\n    pass\n"
    if inherit:
        # the methods live on an undecorated base class; the class-level callback is on the subclass
        return f"{pre}class {name}Base:\n{body}{deco_c}class {name}({name}Base):\n    pass\n"
    return f"{pre}{deco_c}class {name}:\n{body}"


USERCOLL_SRC = '''
from func_adl import register_func_adl_os_collection
from func_adl.type_based_replacement import ObjectStreamInternalMethods
_TT = TypeVar("_TT")
@register_func_adl_os_collection
class MyColl(ObjectStreamInternalMethods[_TT]):
    "a collection class of the user, registered next to the built-in one"
    def Last(self) -> _TT: ...
'''


def build(place, beh, inherit=False, usercoll=False, redeclared=False, generic=False):
    src = MODEL_SRC
    if usercoll:
        src += USERCOLL_SRC
    if redeclared and place == "func":
        # an earlier declaration under the same name, with another processor (a notebook cell run again after an edit)
        src += "@func_adl_callable(_act('stale', 'fn', 'md+rename'))\ndef fn(x: float, k: int = 3) -> float: ...\n"
    if redeclared and place == "func+method":
        src += "@func_adl_callable(_act('stale', 'good', 'md+rename'))\ndef good(x: Ev, k: int = 3) -> Iterable[Jet]: ...\n"
    src += "_GT = TypeVar('_GT')\n"
    src += class_src("Trk", place, beh, [], inherit, generic)
    src += class_src("Jet", place, beh, ["def trks(self) -> Iterable[Trk]: ...", "def pt(self) -> float: ..."], inherit, generic)
    src += class_src("Ev", place, beh, ["def jets(self) -> Iterable[Jet]: ...", "def a(self) -> float: ..."], inherit, generic)
    if place == "func":
        src += f"@func_adl_callable(_act('func', 'fn', '{beh}'))\ndef fn(x: float, k: int = 3) -> float: ...\n"
    if place == "func+method":
        src += f"@func_adl_callable(_act('func', 'good', '{beh}'))\ndef good(x: Ev, k: int = 3) -> Iterable[Jet]: ...\n"
    mod = types.ModuleType("fadlmc_c09_model")
    sys.modules["fadlmc_c09_model"] = mod
    exec(src, mod.__dict__)
    return mod.__dict__


def call_text(place, var, arg):
    if place == "func":
        return f"fn({var}.other(), {arg})"
    if place == "prop":
        return f"{var}.par[{arg!r}, 'p{arg}']({arg})" if arg % 2 else f"{var}.par['t{arg}']({arg})"
    if place == "proplist":
        return f"{var}.par[['x', 'y']]({arg})"  # a mutable parameter, spelled identically at every site
    return f"{var}.tgt({arg})" if arg != 2 else f"{var}.tgt({arg}, 7)"


SITES = [
    # (name, template, [(class of the receiver, arg)], operators it can be used with)
    ("d1", "{c1}", [("Ev", "e", 1)], ("Select", "Where")),
    ("d1x2", "{c1} + {c2}", [("Ev", "e", 1), ("Ev", "e", 2)], ("Select", "Where")),
    ("d2sel", "e.jets().Select(lambda j: {c1})", [("Jet", "j", 1)], ("Select", "SelectMany")),
    ("d2where", "e.jets().Where(lambda j: {c1} > 1)", [("Jet", "j", 1)], ("Select", "SelectMany")),
    ("d2x2", "e.jets().Select(lambda j: {c1} + {c2})", [("Jet", "j", 1), ("Jet", "j", 2)], ("Select",)),
    ("d1+d2", "e.jets().Select(lambda j: {c1} + {c2})", [("Jet", "j", 1), ("Ev", "e", 2)], ("Select",)),
    ("d3", "e.jets().Select(lambda j: j.trks().Select(lambda t: {c1}))", [("Trk", "t", 1)], ("Select",)),
    ("d3where", "e.jets().Select(lambda j: j.trks().Where(lambda t: {c1} > j.pt()))", [("Trk", "t", 1)], ("Select",)),
    ("d2+d3", "e.jets().Select(lambda j: j.trks().Select(lambda t: {c1} + {c2}))", [("Trk", "t", 1), ("Jet", "j", 2)], ("Select",)),
    ("d2selmany", "e.jets().SelectMany(lambda j: j.trks()).Select(lambda t: {c1})", [("Trk", "t", 1)], ("Select", "SelectMany")),
    ("d2selmany-in", "e.jets().SelectMany(lambda j: j.trks().Where(lambda t: {c1} > 0))", [("Trk", "t", 1)], ("Select", "SelectMany")),
    ("d2selmany-outer", "e.jets().SelectMany(lambda j: j.trks().Where(lambda t: t.other() > {c1}))", [("Ev", "e", 1)], ("Select", "SelectMany")),
    ("d2selmany-outer2", "e.jets().SelectMany(lambda j: j.trks().Select(lambda t: {c1} + {c2}))", [("Trk", "t", 1), ("Jet", "j", 2)], ("Select",)),
    ("d1-and-d3", "{c1} + e.jets().Select(lambda j: j.trks().Select(lambda t: {c2}).First()).First()", [("Ev", "e", 1), ("Trk", "t", 2)], ("Select", "Where")),
    ("fnres", "good(e).Select(lambda j: {c1})", [("Jet", "j", 1)], ("Select", "SelectMany")),
    ("fnres-where", "good(e, 4).Where(lambda j: {c1} > 1).Count()", [("Jet", "j", 1)], ("Select",)),
    ("none", "e.a() + e.jets().Select(lambda j: j.pt()).First()", [], ("Select", "Where")),
    # an inner lambda re-uses the outer parameter's name; a site on the OUTER parameter comes after the nested lambda
    ("shadow-then-outer", "(e.jets().Select(lambda e: {c1}), {c2})", [("Jet", "e", 1), ("Ev", "e", 2)], ("Select",)),
    ("shadow-then-outer-d2", "e.jets().Select(lambda j: (j.trks().Select(lambda j: {c1}), {c2}))", [("Trk", "j", 1), ("Jet", "j", 2)], ("Select",)),
    # the typed object comes out of a negative / computed subscript
    ("subneg", "{c1}", [("Jet", "e.jets()[-1]", 1)], ("Select", "Where")),
    ("subexpr", "{c1} + {c2}", [("Jet", "e.jets()[1 - 2]", 1), ("Jet", "e.jets()[0]", 2)], ("Select",)),
    ("subneg-d2", "e.jets().Select(lambda j: {c1})", [("Trk", "j.trks()[-1]", 1)], ("Select", "SelectMany")),
    ("outer-then-shadow", "({c2}, e.jets().Where(lambda e: {c1} > 1))", [("Jet", "e", 1), ("Ev", "e", 2)], ("Select",)),
]


class C09(Check):
    pid = "C09"
    title = "Callbacks fire at every matching call site and their metadata reaches the stream"
    rule = ("every placement of callbacks (class, method, both, function processor, parameterized property with "
            "parameter tuples of length 1 and 2 over str/int) x every callback behaviour (identity, attach MetaData, "
            "rename the call, append an argument, replace an argument, MetaData + rename, return a call node it built itself with the "
            "same content, the latter + MetaData; the callback edits the list parameters it receives) x every call-site shape "
            "(depth 1..3 inside Select / Where of typed collections, one or two sites per lambda, sites at two depths, "
            "no site at all) x stream operator Select / Where / SelectMany, on a fresh and on an already derived "
            "parent stream, with the methods defined on the decorated class or inherited from an undecorated base, with a "
            "second (user) collection class registered, with the function declared twice under one name, with one "
            "callback function object on the class and on its method, with the methods on a generic base class "
            "closed by the subclass. Oracle: a reference walk of the user's lambda lists the call sites; every site must "
            "produce a callback invocation, class-level before method-level, no invocation for anything that is not a "
            "site; every dictionary a callback attached must be on the args[0] chain below the new operator node and "
            "nothing else may be added there; the emitted call site must be what the callbacks returned. "
            "Non-trivial = configuration with >= 1 call site")
    assumptions = [
        "how OFTEN a callback runs for one site is not fixed by the property (nested lambdas are type-followed more "
        "than once): >= 1 invocation per site is required, duplicates of an attached dictionary are tolerated",
        "where on the upstream chain the MetaData sits is not prescribed, only that it is below the new operator",
    ]

    def spaces(self, tier):
        def cases():
            out = []
            for place in PLACES:
                for beh in BEHAVIOURS:
                    for site in SITES:
                        if (site[0].startswith("fnres")) != (place == "func+method"):
                            continue
                        if site[0].startswith("sub") and beh not in ("identity", "md", "rebuild", "md+rebuild"):
                            continue  # the receiver text holds a call of its own (e.jets()): behaviours that re-spell calls are covered by the other sites
                        for op in site[3]:
                            for parent in ("root", "derived", "root+inherit", "root+usercoll", "root+genericbase"):
                                out.append((place, beh, site[0], op, parent))
                            if place in ("func", "func+method"):
                                out.append((place, beh, site[0], op, "root+redeclared"))
                            if site[0] in ("d2sel", "d2where", "d3", "d2selmany"):
                                out.append((place, beh, site[0], op, "root+samenames"))
                            if site[0] in ("d1", "d2sel", "d3") and place in ("class", "method", "both", "prop", "proplist"):
                                # a SECOND model is made by the same source (same module name, same class names) before the query
                                out.append((place, beh, site[0], op, "root+twomodels"))
            return out
        return [Space("configurations", {"places": PLACES, "behaviours": BEHAVIOURS, "sites": [s[0] for s in SITES]},
                      cases, runner="run_case")]

    def run_case(self, payload):
        from func_adl import EventDataset

        place, beh, sname, op, parent = payload
        bind.reset_type_registries()
        g = build(place, beh, parent.endswith("+inherit"), parent.endswith("+usercoll"), parent.endswith("+redeclared"),
                  parent.endswith("+genericbase"))
        if parent.endswith("+twomodels"):
            build(place, "md+rename" if beh != "md+rename" else "identity")  # its callbacks log elsewhere and behave differently
        site = next(s for s in SITES if s[0] == sname)
        calls = [call_text(place, var, arg) for (_, var, arg) in site[2]]
        body = site[1].format(c1=calls[0] if calls else "", c2=calls[1] if len(calls) > 1 else "")
        if op == "Where" and sname in ("d1", "d1x2", "none", "d1-and-d3", "subneg"):
            body = f"({body}) > 1"
        lam = f"lambda e: {body}"
        if parent.endswith("+samenames"):
            # every nested lambda re-uses the name e (none of these sites mentions an outer parameter)
            import re as _re
            lam = _re.sub(r"\b[jt]\b", "e", lam)
            calls = [_re.sub(r"\b[jt]\b", "e", c) for c in calls]
        canon = repr(payload)
        res = {"n": 1, "nt": [canon] if calls else [], "oc": [], "tags": {}, "viol": []}

        class DS(EventDataset):
            async def execute_result_async(self, a, title=None):
                return a

        s0 = DS(g["Ev"])
        if parent == "derived":
            s0 = s0.Where("lambda e: e.a() > 0").MetaData({"pre": 1})
        g["LOG"].clear()
        g["ATTACHED"].clear()
        before_md = _chain_metadata(s0.query_ast)
        try:
            s1 = getattr(s0, op)(lam)
        except Exception as e:
            res["oc"].append("raised")
            res["viol"].append({"kind": f"raised:{type(e).__name__}", "canon": canon, "msg": f"{lam}: {e}"[:200]})
            return res
        log = list(g["LOG"])
        attached = list(g["ATTACHED"])
        # ---------------- expected invocations (reference walk of the user's lambda)
        expected = []
        for kind, owner, meth in reference_sites(lam):
            if kind == "call":
                if place in ("class", "both"):
                    expected.append(("class", owner))
                if place in ("method", "both") and meth == "tgt":
                    expected.append(("method", owner))
                if place == "both-same":
                    expected.append(("shared", owner))
            elif kind == "func" and place in ("func", "func+method"):
                expected.append(("func", owner))
            if kind == "call" and place == "func+method" and meth == "tgt":
                expected.append(("method", owner))
            elif kind == "prop" and place in ("prop", "proplist"):
                expected.append(("prop", owner))
        got = [(k, o) for k, o, _, _ in log]
        for e_ in set(expected):
            if e_ not in got:
                res["viol"].append({"kind": "callback-not-invoked", "canon": canon, "msg": f"{e_} for {lam}; log {got}"})
                return res
        for g_ in got:
            if g_ not in expected:
                res["viol"].append({"kind": "callback-fired-for-absent-site", "canon": canon, "msg": f"{g_}; {lam}"})
                return res
        if place == "both":
            for cls in {c for c, _, _ in site[2]}:
                # the class-level callback of a tgt call runs before its method-level callback
                tl = [(k, o) for k, o, text, _ in log if o == cls and ".tgt" in text]
                ic = tl.index(("class", cls)) if ("class", cls) in tl else -1
                im = tl.index(("method", cls))
                if ic < 0 or ic > im:
                    res["viol"].append({"kind": "method-callback-before-class-callback", "canon": canon, "msg": str(got)})
                    return res
        if place == "proplist":
            for k, o, _, p in log:
                if k == "prop" and p != (["x", "y"],):
                    res["viol"].append({"kind": "property-parameters-not-passed-by-value", "canon": canon,
                                        "msg": f"wanted (['x', 'y'],), callback of {o} received {p}"})
                    return res
        if place == "prop":
            for (cls, var, arg) in site[2]:
                want_params = ((arg, f"p{arg}"),) if arg % 2 else (f"t{arg}",)
                if not any(k == "prop" and o == cls and p == want_params for k, o, _, p in log):
                    res["viol"].append({"kind": "property-parameters-not-passed-by-value", "canon": canon,
                                        "msg": f"wanted {want_params}, log {[(o, p) for _, o, _, p in log]}"})
                    return res
        if place in ("prop", "proplist", "class", "method", "both", "both-same") and op == "Select" and sname in ("d1", "d1x2"):
            # the callback of a parameterized property states its result type (float): the enclosing expression is typed with it
            if s1.item_type is not float:
                res["viol"].append({"kind": "type-of-a-call-rewritten-by-its-callback-lost", "canon": canon, "msg": f"{lam}: item type {s1.item_type!r}, declared float"})
                return res
        # ---------------- metadata on the source chain, below the new operator
        top = s1.query_ast
        if not (isinstance(top, ast.Call) and isinstance(top.func, ast.Name) and top.func.id == op):
            res["viol"].append({"kind": "operator-node-not-on-top", "canon": canon, "msg": ast.dump(top)[:150]})
            return res
        after_md = _chain_metadata(top.args[0])
        new_md = list(after_md)
        for d in before_md:
            if d in new_md:
                new_md.remove(d)
        for d in attached:
            if d not in new_md:
                res["viol"].append({"kind": "attached-metadata-missing-upstream", "canon": canon,
                                    "msg": f"{d} not below {op}; found {new_md}; {lam}"})
                return res
        for d in new_md:
            if d not in attached:
                res["viol"].append({"kind": "unexpected-metadata-upstream", "canon": canon, "msg": f"{d}"})
                return res
        if any(isinstance(n, ast.Call) and isinstance(n.func, ast.Name) and n.func.id == "MetaData"
               for n in ast.walk(top.args[1])):
            res["viol"].append({"kind": "metadata-left-inside-lambda", "canon": canon, "msg": ast.unparse(top.args[1])[:200]})
            return res
        # ---------------- emitted call sites
        out_lam = top.args[1]
        emitted = ast.unparse(out_lam)
        for (cls, var, arg), text in zip(site[2], calls):
            want = _expected_call(place, beh, "e" if parent.endswith("+samenames") else var, arg)
            if want not in emitted:
                res["oc"].append("callsite-differs")
                res["viol"].append({"kind": "emitted-call-site-differs-from-callback-result", "canon": canon,
                                    "msg": f"expected {want!r} in {emitted[:250]!r}"})
                return res
        res["oc"].append(f"ok:sites={len(calls)}:md={'y' if attached else 'n'}")
        return res

    def render(self, space_name, payload):
        return repr(payload)


RET = {"jets": ("seq", "Jet"), "trks": ("seq", "Trk")}


def reference_sites(lam_src):
    """independent walk of the user's lambda: [(kind, owner, method)] for every call on a typed object,
    every fn(...) call and every parameterized property call, in evaluation order (inner first)"""
    tree = ast.parse(lam_src, mode="eval").body
    sites = []

    def ty(n, env):
        if isinstance(n, ast.Name):
            return env.get(n.id)
        if isinstance(n, ast.Subscript):
            r = ty(n.value, env)
            ty(n.slice, env)
            if isinstance(r, tuple) and r[0] == "seq" and not isinstance(n.slice, ast.Slice):
                return r[1]
            return None
        if isinstance(n, ast.Call):
            f = n.func
            if isinstance(f, ast.Subscript) and isinstance(f.value, ast.Attribute):
                r = ty(f.value.value, env)
                for a in n.args:
                    ty(a, env)
                if isinstance(r, str):
                    sites.append(("prop", r, f.value.attr))
                return None
            if isinstance(f, ast.Name):
                for a in n.args:
                    ty(a, env)
                if f.id == "fn":
                    sites.append(("func", "fn", "fn"))
                if f.id == "good":
                    sites.append(("func", "good", "good"))
                    return ("seq", "Jet")
                return None
            if isinstance(f, ast.Attribute):
                r = ty(f.value, env)
                if isinstance(r, tuple) and r[0] == "seq" and f.attr in ("Select", "Where", "SelectMany"):
                    lam = n.args[0]
                    inner = ty(lam.body, dict(env, **{lam.args.args[0].arg: r[1]}))
                    if f.attr == "Where":
                        return r
                    if f.attr == "SelectMany":
                        return inner if isinstance(inner, tuple) else ("seq", None)
                    return ("seq", inner if isinstance(inner, str) else None)
                if isinstance(r, tuple) and r[0] == "seq" and f.attr == "First":
                    return r[1]
                for a in n.args:
                    ty(a, env)
                if isinstance(r, str):
                    sites.append(("call", r, f.attr))
                    return RET.get(f.attr)
                return None
        for c in ast.iter_child_nodes(n):
            ty(c, env)
        return None

    ty(tree.body, {tree.args.args[0].arg: "Ev"})
    return sites


def _chain_metadata(a):
    out = []
    while isinstance(a, ast.Call) and a.args:
        if isinstance(a.func, ast.Name) and a.func.id == "MetaData":
            out.append(ast.literal_eval(a.args[1]))
        a = a.args[0]
    return out


def _expected_call(place, beh, var, arg):
    if place == "func+method":
        return f"{var}.tgt({arg}, 5)"
    kinds = {"class": ["class"], "method": ["method"], "both": ["class", "method"], "both-same": ["shared", "shared"],
             "func": ["func"], "prop": ["prop"], "proplist": ["prop"]}[place]
    if place == "func":
        name, args = "fn", [f"{var}.other()", str(arg)]
        full = args + ([] if len(args) >= 2 else ["3"])
    elif place in ("prop", "proplist"):
        name, full = "par", [str(arg)]
    else:
        name, full = "tgt", [str(arg), "5" if arg != 2 else "7"]
    for k in kinds:
        if "rename" in beh:
            name = name + "_" + k
        if "addarg" in beh:
            full = full + [repr("added_" + k)]
        if "replarg" in beh:
            full = full[:-1] + [repr("repl_" + k)]
    head = name if place == "func" else f"{var}.{name}"
    return f"{head}({', '.join(full)})"


CHECK = C09()
