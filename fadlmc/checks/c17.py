"""C17 - method-form and function-form queries are interchangeable."""
import ast
import copy

from .. import qsem, qspaces
from ..core import Check, Space

OPS = ["Select", "SelectMany", "Where", "First", "ResultTTree", "ResultAwkwardArray", "ResultPandasDF",
       "Min", "Max", "Sum", "Aggregate", "Count"]
# non-operator methods of the same shape, interleaved (prefix / suffix / case variants of operator names)
DECOYS = ["Selectx", "select", "xSelect", "ResultParquet", "SumPt", "Counts", "first", "Wher"]


class _Ref(ast.NodeTransformer):
    "independent reference rewrite (bottom-up)"

    def visit_Call(self, node):
        self.generic_visit(node)
        if isinstance(node.func, ast.Attribute) and node.func.attr in OPS and not node.keywords:
            return ast.Call(ast.Name(node.func.attr, ast.Load()), [node.func.value] + list(node.args), [])
        return node


class _RefKeep(ast.NodeTransformer):
    "reference rewrite that also converts operator calls carrying keyword arguments, keeping the keywords"

    def visit_Call(self, node):
        self.generic_visit(node)
        if isinstance(node.func, ast.Attribute) and node.func.attr in OPS:
            return ast.Call(ast.Name(node.func.attr, ast.Load()), [node.func.value] + list(node.args), list(node.keywords))
        return node


KEYWORD_CASES = [
    "seq.Select(f=lambda e: e.a)", "seq.Select(lambda e: e.a, k=1)", "seq.Count(x=1)", "seq.Where(filter=lambda e: e.a > 1).Count()",
    "ds.Select(lambda e: e.jets.Where(f=lambda j: j.pt > 1).Count())", "seq.Aggregate(0, func=lambda a, v: a + v)",
    "seq.First(default=0).pt", "f(k=seq.Select(g=lambda e: e.a))", "seq.Select(lambda e: e.a, **opts)", "seq.Select(*fs)",
    "seq.ResultTTree(['c'], treename='t', filename='f.root')", "seq.Select(lambda e: e.jets.Count(min=1), n=seq.Count())",
]


def method_ops_left(a):
    return [n.func.attr for n in ast.walk(a)
            if isinstance(n, ast.Call) and isinstance(n.func, ast.Attribute) and n.func.attr in OPS]


class C17(Check):
    pid = "C17"
    title = "Method-form and function-form queries are interchangeable"
    rule = ("every query of the E1 grammar up to the stated size with EVERY operator call independently in "
            "method or function form (Select/Where/SelectMany/First/Count at all depths, incl. inside lambda "
            "bodies and arguments), plus for each one every single replacement of a method-form operator by a "
            "non-operator method of the same shape (decoys), plus hand-shaped argument-position cases "
            "(operator call directly as an argument of another operator: Aggregate, Result*), is given to the "
            "real change_extension_functions_to_calls; the result must equal an independent reference "
            "rewrite, contain no method-form operator call, be a fixpoint, leave the input untouched and "
            "evaluate to the same value on every dataset; histories convert -> edit the result below its root (in place, or in a "
            "deep copy) so that it holds method-form calls again -> convert: the new calls must be converted too. "
            "Non-trivial = input had >= 1 method-form operator")
    assumptions = [
        "operator calls carry positional arguments only (the statement fixes seq.Op(args...))",
        "decoy methods cannot be evaluated (no Python meaning): structural oracle only for those",
    ]

    def spaces(self, tier):
        Q = tier == "quick"
        out = []
        for sl, hi in (("full", 6 if Q else 7), ("fusion", 8 if Q else 9), ("apply", 6 if Q else 7)):
            out.append(Space(f"{sl}<={hi} forms=fm", qspaces.describe(sl, 1, hi, ("e", "j"), ("f", "m")),
                             (lambda sl=sl, hi=hi: qspaces.enumerate_sources(sl, 1, hi, ("e",), ("f", "m"))),
                             runner="run_q"))
        out.append(Space("argument-positions", {"generator": "operator calls directly in argument positions"},
                         _arg_cases, runner="run_struct"))
        out.append(Space("receivers", {"generator": "every operator on every kind of receiver expression"},
                         _receiver_cases, runner="run_struct"))
        out.append(Space("positions", {"generator": "a method-form operator call in every syntactic position (arguments, keywords, "
                                        "starred, subscripts, slices, dict keys and values, operands, conditionals, lambda defaults, "
                                        "comprehension parts, f-strings, walrus, callee)", "positions": len(POSITIONS)},
                         _position_cases, runner="run_struct"))
        out.append(Space("keyword-calls", {"cases": len(KEYWORD_CASES), "oracle": "an operator call that carries keyword / ** / * arguments is either "
                                           "left as it is or converted with EVERY argument kept; nothing may be lost; a second application changes nothing"},
                         KEYWORD_CASES, runner="run_kw"))
        out.append(Space("shared-nodes", {"generator": "trees in which one node object is referenced from several places"},
                         (lambda: list(range(N_SHARED))), runner="run_shared"))
        out.append(Space("name-list histories", {"lists": NAME_LISTS, "histories": "every ordered pair (L1, L2): convert with L1, "
                                                 "change THE SAME list object into L2, convert again; and with fresh list objects"},
                         (lambda: [(i, j) for i in range(len(NAME_LISTS)) for j in range(len(NAME_LISTS))]), runner="run_names"))
        out.append(Space("pkg<=7 forms=fm", qspaces.describe("pkg", 3, 7, ("e",), ("f", "m")),
                         (lambda: qspaces.enumerate_sources("pkg", 3, 7 if Q else 8, ("e",), ("f", "m"))), runner="run_q"))
        return out

    def _transform(self, q):
        from func_adl.ast.func_adl_ast_utils import change_extension_functions_to_calls

        return change_extension_functions_to_calls(q)

    def _structural(self, src, q, res, canon):
        before = ast.dump(q)
        qc = copy.deepcopy(q)
        try:
            r = self._transform(qc)
        except Exception as e:
            res["viol"].append({"kind": f"raised:{type(e).__name__}", "canon": canon, "msg": str(e)[:200]})
            return None
        res["n"] += 1
        ref = _Ref().visit(copy.deepcopy(q))
        if ast.dump(r) != ast.dump(ref):
            res["viol"].append({"kind": "differs-from-reference-rewrite", "canon": canon,
                                "msg": f"got {ast.unparse(r)[:200]} expected {ast.unparse(ref)[:200]}"})
            return r
        left = method_ops_left(r)
        if left:
            res["viol"].append({"kind": "method-form-remains", "canon": canon, "msg": str(left)})
            return r
        r2 = self._transform(copy.deepcopy(r))
        if ast.dump(r2) != ast.dump(r):
            res["viol"].append({"kind": "not-idempotent", "canon": canon, "msg": ast.unparse(r2)[:200]})
        # converting the very same input object once more must give the same query and leave the first result alone
        d1 = ast.dump(r)
        try:
            r3 = self._transform(qc)
            if ast.dump(r3) != d1:
                res["viol"].append({"kind": "second-conversion-of-the-same-object-differs", "canon": canon,
                                    "msg": f"{ast.unparse(r3)[:150]} vs {ast.unparse(ref)[:150]}"})
            elif ast.dump(r) != d1:
                res["viol"].append({"kind": "first-result-changed-by-a-later-conversion", "canon": canon, "msg": ast.unparse(r)[:150]})
        except Exception as e:
            res["viol"].append({"kind": f"second-conversion-raised:{type(e).__name__}", "canon": canon, "msg": str(e)[:100]})
        # convert -> another pass edits the RESULT below its root so that it holds method-form calls again (in place, or in
        # a deep copy of it) -> convert again: the new calls must be converted as well
        for variant in ("in-place", "deep-copy"):
            try:
                rr = self._transform(copy.deepcopy(q))
                if variant == "deep-copy":
                    rr = copy.deepcopy(rr)
                if not _graft(rr):
                    break
                want = ast.dump(_Ref().visit(copy.deepcopy(rr)))
                r4 = self._transform(rr)
                res["n"] += 1
                if ast.dump(r4) != want:
                    res["viol"].append({"kind": f"edited-result-not-converted-again:{variant}", "canon": canon,
                                        "msg": f"{ast.unparse(r4)[:200]}"})
                    break
            except Exception as e:
                res["viol"].append({"kind": f"edited-result-conversion-raised:{type(e).__name__}", "canon": canon, "msg": str(e)[:100]})
                break
        return r

    def run_q(self, src):
        res = {"n": 0, "nt": [], "oc": [], "tags": {}, "viol": []}
        q = qsem.parse_expr(src)
        nmeth = len(method_ops_left(q))
        if nmeth:
            res["nt"].append(src)
        r = self._structural(src, q, res, src)
        res["oc"].append(f"method-ops={min(nmeth, 3)}")
        if r is not None and not res["viol"]:
            kind, msg, n, oc = qsem.compare(q, r)
            res["n"] += n
            res["oc"] += list(oc)
            if kind:
                res["viol"].append({"kind": kind, "canon": src, "msg": msg})
        # decoys: replace one method-form operator at a time by a non-operator method name
        if nmeth:
            calls = [n for n in ast.walk(q) if isinstance(n, ast.Call) and isinstance(n.func, ast.Attribute)
                     and n.func.attr in OPS]
            for i, c in enumerate(calls[:3]):
                for d in DECOYS:
                    old = c.func.attr
                    c.func.attr = d
                    canon = f"{src}|decoy{i}={d}"
                    self._structural(canon, q, res, canon)
                    c.func.attr = old
            res["oc"].append("decoys")
        return res

    def run_kw(self, src):
        res = {"n": 1, "nt": [src], "oc": ["kw"], "tags": {}, "viol": []}
        q = qsem.parse_expr(src)
        try:
            r = self._transform(copy.deepcopy(q))
        except Exception as e:
            res["viol"].append({"kind": f"raised:{type(e).__name__}", "canon": src, "msg": str(e)[:200]})
            return res
        keep = ast.dump(_RefKeep().visit(copy.deepcopy(q)))
        leave = ast.dump(_Ref().visit(copy.deepcopy(q)))
        if ast.dump(r) not in (keep, leave):
            res["viol"].append({"kind": "arguments-lost-or-changed", "canon": src,
                                "msg": f"got {ast.unparse(r)[:200]}; either {ast.unparse(ast.parse(src))[:100]} converted with all its arguments or left alone"})
            return res
        r2 = self._transform(copy.deepcopy(r))
        if ast.dump(r2) != ast.dump(r):
            res["viol"].append({"kind": "not-idempotent", "canon": src, "msg": ast.unparse(r2)[:200]})
        return res

    def run_shared(self, k):
        res = {"n": 1, "nt": [f"shared|{k}"], "oc": ["shared"], "tags": {}, "viol": []}
        tree = _shared_tree(k)
        text = ast.unparse(tree)
        want = ast.dump(_Ref().visit(ast.parse(text, mode="eval").body))
        try:
            r = self._transform(tree)
        except Exception as e:
            res["viol"].append({"kind": f"raised:{type(e).__name__}", "canon": f"shared|{k}", "msg": str(e)[:200]})
            return res
        got = ast.dump(ast.parse(ast.unparse(r), mode="eval").body)
        if got != want:
            res["viol"].append({"kind": "shared-node-not-converted-everywhere", "canon": f"shared|{k}",
                                "msg": f"{text} -> {ast.unparse(r)[:200]}"})
        return res

    def run_names(self, payload):
        from func_adl.ast.func_adl_ast_utils import change_extension_functions_to_calls

        i, j = payload
        res = {"n": 0, "nt": [f"names|{i}|{j}"], "oc": ["names"], "tags": {}, "viol": []}

        class Ref(ast.NodeTransformer):
            def __init__(self, names):
                self.names = names

            def visit_Call(self, node):
                self.generic_visit(node)
                if isinstance(node.func, ast.Attribute) and node.func.attr in self.names:
                    return ast.Call(ast.Name(node.func.attr, ast.Load()), [node.func.value] + list(node.args), [])
                return node

        for NQ in NAMES_QS:
            self._names_for(NQ, i, j, Ref, res)
            if res["viol"]:
                break
        return res

    def _names_for(self, NAMES_Q, i, j, Ref, res):
        from func_adl.ast.func_adl_ast_utils import change_extension_functions_to_calls

        def want(names):
            return ast.dump(Ref(list(names)).visit(qsem.parse_expr(NAMES_Q)))

        for mode in ("same-object", "fresh-objects"):
            L = list(NAME_LISTS[i])
            steps = [list(NAME_LISTS[i]), list(NAME_LISTS[j]), list(NAME_LISTS[i])]
            for k, names in enumerate(steps):
                if mode == "same-object":
                    L[:] = names
                    arg = L
                else:
                    arg = list(names)
                r = change_extension_functions_to_calls(qsem.parse_expr(NAMES_Q), arg)
                res["n"] += 1
                if ast.dump(r) != want(names):
                    res["viol"].append({"kind": "conversion-ignores-the-current-name-list", "canon": f"names|{i}|{j}",
                                        "msg": f"{mode} step {k} names {names}: {ast.unparse(r)[:200]}"})
                    return res
            # the default list must be unaffected by what was done with custom lists
            r = change_extension_functions_to_calls(qsem.parse_expr(NAMES_Q))
            if ast.dump(r) != ast.dump(_Ref().visit(qsem.parse_expr(NAMES_Q))):
                res["viol"].append({"kind": "default-name-list-affected", "canon": f"names|{i}|{j}", "msg": ast.unparse(r)[:200]})
        return res

    def run_struct(self, src):
        res = {"n": 0, "nt": [src], "oc": ["struct"], "tags": {}, "viol": []}
        self._structural(src, qsem.parse_expr(src), res, src)
        return res


def _graft(root):
    "replace the first plain name below the root (not a callee) by a method-form query, in place; False if there is none"
    snippet = ast.parse("zs.Where(lambda z: z.ks.Count() > 1).First()", mode="eval").body
    for p in ast.walk(root):
        for f, v in ast.iter_fields(p):
            if isinstance(p, ast.Call) and f == "func":
                continue
            if isinstance(v, ast.Name) and isinstance(v.ctx, ast.Load) and v is not root:
                setattr(p, f, snippet)
                return True
            if isinstance(v, list):
                for k, x in enumerate(v):
                    if isinstance(x, ast.Name) and isinstance(x.ctx, ast.Load) and x is not root:
                        v[k] = snippet
                        return True
    return False


def _arg_cases():
    seqs = ["ds", "ds.Select(lambda e: e.a)", "Select(ds, lambda e: e.jets.Count())", "ds.jets"]
    out = []
    for s in seqs:
        for inner in ["{s}.Count()", "{s}.First()", "{s}.Sum()", "{s}.Select(lambda j: j.pt).Max()", "Count({s})"]:
            i = inner.format(s=s)
            out += [
                f"ds.Aggregate({i}, lambda acc, p: acc + p)",
                f"Aggregate(ds, {i}, lambda acc, p: acc + p)",
                f"ds.Select(lambda e: e.a).Aggregate({i}, lambda acc, p: acc + {i})",
                f"ds.ResultTTree({i}, 'tree', 'file.root')",
                f"ds.foo({i}).Count()",
                f"foo({i}, {i}.bar())",
                f"({i}, [{i}], {{'k': {i}}})",
                f"{i} if {i} > 1 else {i} + 1",
                f"ds.Where(lambda e: {i} > 1).Select(lambda e: {i})",
                f"Select(ds, lambda e: e.jets.Select(lambda j: {i}).Count())",
            ]
    return sorted(set(out))


POSITIONS = ["f({X})", "f(k={X})", "f(*{X})", "f(**{X})", "({X})[0]", "z[{X}]", "z[{X}:1]", "{{'k': {X}}}", "{{{X}: 1}}", "[{X}]", "({X}, 1)",
             "{{{X}, 1}}", "{X} + 1", "1 + {X}", "-{X}", "not {X}", "{X} if c else d", "c if {X} else d", "c if d else {X}",
             "{X} and c", "c or {X}", "{X} > 1", "1 < c < {X}", "lambda e, n={X}: e", "lambda e, *, n={X}: e", "lambda e: {X}",
             "f(lambda e, n={X}: e.a + n)", "[a for a in {X}]", "[{X} for a in b]", "[a for a in b if {X}]",
             "{{a: {X} for a in b}}", "({X} for a in b)", "{X}.attr", "{X}(1)", "f'{{{X}}}'", "(y := {X})", "{X}.decoy(1)",
             "g(h({X}))", "{X}.Select(lambda e: {X})", "Select({X}, lambda e, n={X}: n)",
             # inside the keyword argument of a NON-operator method call, alone and as a link of a method chain
             "obj.m(k={X})", "obj.m(k={X}).n()", "obj.m(1).n(k={X}).o(2)", "obj.m(*{X}).n(**{X})", "{X}.closest(to={X})"]
XS = ["ds.Select(lambda e: e.a)", "ds.jets.Count()", "ds.Where(lambda e: e.jets.First().pt > 1).First()"]


def _position_cases():
    return sorted({p.format(X=x) for p in POSITIONS for x in XS})


# trees in which ONE node object is referenced from several places (as substitution inside the library produces)
def _shared_tree(k):
    n = ast.parse("ds.jets.Select(lambda j: j.tr.Count()).Count()", mode="eval").body
    m = ast.parse("e.trks.First()", mode="eval").body
    L = ast.Load()
    lam = ast.parse("lambda e: e.jets.Where(lambda j: j.pt > 1).Count()", mode="eval").body
    return [
        lambda: ast.BinOp(n, ast.Add(), n),
        lambda: ast.Tuple([n, n, m], L),
        lambda: ast.Call(ast.Name("f", L), [n], [ast.keyword("k", n)]),
        lambda: ast.Call(ast.Attribute(n, "Select", L), [ast.Lambda(lam.args, n)], []),
        lambda: ast.Tuple([ast.Call(ast.Attribute(ast.Name("a", L), "Select", L), [lam], []),
                           ast.Call(ast.Attribute(ast.Name("b", L), "Where", L), [lam], [])], L),
        lambda: ast.IfExp(ast.Compare(n, [ast.Gt()], [m]), n, m),
        lambda: ast.Dict([ast.Constant("p"), ast.Constant("q")], [m, m]),
    ][k]()


N_SHARED = 7
NAME_LISTS = [["Select"], ["Select", "Where"], ["Count"], [], ["First", "Count", "Select", "Where"], ["Foo"]]
NAMES_Q = "ds.Select(lambda e: e.jets.Where(lambda j: j.pt > 1).Count()).Foo(1).First()"
# queries without any of the default operator names
NAMES_QS = [NAMES_Q, "jets.Foo(other)", "jets.Foo(lambda j: j.trks.Foo(1)).bar(2)", "f(jets.Foo(1), k=jets.Foo(2))"]


RECEIVERS = ["x", "x.y", "x.y.z", "f(x)", "x.m()", "x[0]", "x['k']", "x[1:2]", "(a if c else b)", "(a, b)[0]", "[a, b][1]",
             "{'k': s}['k']", "{'k': s}.k", "(lambda s: s)(x)", "(-x)", "(a + b)", "(a or b)", "(not a)", "(a > b)", "'s'", "(1)",
             "[j for j in x]", "(j for j in x)", "f(x).g(y)[0].h", "x.y[0].z(1)", "(x, y)", "[x]", "{'k': x}"]


def _receiver_cases():
    out = []
    calls = {"Select": "(lambda e: e.a)", "SelectMany": "(lambda e: e.js)", "Where": "(lambda e: e.a > 1)", "First": "()", "Count": "()",
             "Sum": "()", "Max": "()", "Min": "()", "Aggregate": "(0, lambda a, v: a + v)", "ResultTTree": "(['c'], 't', 'f')",
             "ResultAwkwardArray": "(['c'])", "ResultPandasDF": "(['c'])"}
    for r in RECEIVERS:
        for op, args in calls.items():
            out.append(f"{r}.{op}{args}")
            out.append(f"{r}.{op}{args}.Count()")
            out.append(f"g({r}.{op}{args}, 1)")
    return out


CHECK = C17()
