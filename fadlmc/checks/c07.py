"""C07 - typed call sites are normalised to full positional form."""
import ast
import inspect
import itertools

from .. import bind
from ..core import Check, Space

DEFAULTS = [7, "d", 2.5, True, -3, "it's", 0.0, False]
SPECIAL = [float("inf"), float("-inf"), float("nan"), -0.0, 1e300]  # declared defaults a text round trip does not survive


def _drepr(d):
    if isinstance(d, float) and (d != d or d in (float("inf"), float("-inf"))):
        return f"float({str(d)!r})"
    return repr(d)


def _same_default(v, d):
    import math

    if type(v) is not type(d):
        return False
    if isinstance(d, float):
        if math.isnan(d):
            return math.isnan(v)
        return v == d and math.copysign(1, v) == math.copysign(1, d)
    return v == d
ANN = {int: "int", str: "str", float: "float", bool: "bool"}


def signatures(nmax):
    out = []
    for n in range(1, nmax + 1):
        for o in range(0, n + 1):
            r = n - o
            for variant in (0, 1, 2):
                if variant == 2:
                    defs = tuple(SPECIAL[(i + n) % len(SPECIAL)] for i in range(o))
                else:
                    defs = tuple(DEFAULTS[(i + 4 * variant + o) % len(DEFAULTS)] for i in range(o))
                if not any(r == r0 and repr(defs) == repr(d0) for r0, d0 in out):
                    out.append((r, defs))
    return out


def call_shapes(n):
    "every (npos, keyword order) without duplicates/unknowns: those Python accepts + those missing required"
    out = []
    for npos in range(0, n + 1):
        rest = list(range(npos, n))
        for k in range(0, len(rest) + 1):
            for sub in itertools.combinations(rest, k):
                for order in itertools.permutations(sub):
                    out.append((npos, tuple(order)))
    return out


KWONLY = [0, 0]  # (required, defaulted) keyword-only parameters appended to every signature of the model being built


def sig_src(r, defs, self_=True):
    ps = ["self"] if self_ else []
    for i in range(r):
        ps.append(f"p{i}: int")
    for i, d in enumerate(defs):
        ps.append(f"p{r + i}: {ANN[type(d)]} = {_drepr(d)}")
    n = r + len(defs)
    if sum(KWONLY):
        ps.append("*")
        for i in range(KWONLY[0]):
            ps.append(f"p{n + i}: int")
        for i in range(KWONLY[1]):
            ps.append(f"p{n + KWONLY[0] + i}: str = 'kwd{i}'")
    return ", ".join(ps)


def build_model(r, defs, shared, mname="tgt", ret=" -> float"):
    g, cd = _build_model(r, defs, shared)
    if mname == "tgt" and ret == " -> float":
        return g, cd
    src = g["__SRC__"].replace("def tgt(", f"def {mname}(").replace(") -> float: ...  #TGT", f"){ret}: ...")
    g2 = {}
    exec(src, g2)
    g2["__SRC__"] = src
    return g2, cd


def _build_model(r, defs, shared):
    """Ev -> jets() -> Jet -> trks() -> Trk; the target method 'tgt' has the signature under test on every
    class when shared (with DIFFERENT defaults per class), else only where it is called."""
    other1 = tuple((d + 100 if d == d and abs(d) < 1e200 else 5.5) if isinstance(d, (int, float)) and not isinstance(d, bool) else
                   ((not d) if isinstance(d, bool) else d + "_other") for d in defs)
    other2 = tuple((d + 200 if d == d and abs(d) < 1e200 else 6.5) if isinstance(d, (int, float)) and not isinstance(d, bool) else
                   ((not d) if isinstance(d, bool) else d + "_third") for d in defs)
    src = "from typing import Any, Iterable\nfrom func_adl import func_adl_callable\n"
    src += f"class Trk:\n    def q(self) -> float: ...\n    def tgt({sig_src(r, defs)}) -> float: ...  #TGT\n"
    src += f"class Jet:\n    def trks(self, w: int = 1) -> Iterable[Trk]: ...\n    def pt(self) -> float: ...\n" \
           f"    def tgt({sig_src(r, other1 if shared else defs)}) -> float: ...  #TGT\n"
    src += f"class Ev:\n    def jets(self, kind: str = 'def') -> Iterable[Jet]: ...\n    def a(self) -> float: ...\n    def idx(self) -> int: ...\n" \
           f"    def tgt({sig_src(r, other2 if shared else defs)}) -> float: ...  #TGT\n"
    src += f"class JetVec(Iterable[Jet]):\n    def size(self) -> int: ...\n    def tgt({sig_src(r, defs)}) -> float: ...  #TGT\n"
    src += "def _jvec(self) -> JetVec: ...\nEv.jvec = _jvec\n"
    src += f"@func_adl_callable()\ndef fn({sig_src(r, defs, False)}) -> float: ...\n"
    src += "@func_adl_callable()\ndef pick(js: Iterable[Jet], n: int = 0) -> Jet: ...\n"
    src += "@func_adl_callable()\ndef wrap(x: float, mode: str = 'b') -> float: ...\n"
    g = {}
    exec(src, g)
    g["__SRC__"] = src
    return g, {"Trk": defs, "Jet": other1 if shared else defs, "Ev": other2 if shared else defs, "fn": defs,
               "JetVec": defs}


MODEL2 = {
    # site: (dataset item class, lambda template)
    "dcfield": ("Rec", "lambda {a}: {a}.lead.tgt({ARGS})"),
    "dcseq": ("Rec", "lambda {a}: {a}.jets.Select(lambda {b}: {b}.tgt({ARGS}))"),
    "dcfield-d2": ("Ev", "lambda {a}: {a}.rec().lead.tgt({ARGS})"),
    "dcfield-sub": ("Rec", "lambda {a}: {a}['lead'].tgt({ARGS})"),
    "generic2": ("Ev", "lambda {a}: {a}.ranked().at().tgt({ARGS})"),
    "generic2kw": ("Ev", "lambda {a}: {a}.ranked().at(i=1).tgt({ARGS})"),
    "generic2-d2": ("Ev", "lambda {a}: {a}.recs().Select(lambda {b}: {b}.lead.tgt({ARGS}))"),
}


def _build_model2(r, defs):
    """a user dataclass with POSTPONED (string) annotations as item type / return type, and a closed subclass two generic
    levels below the class that declares the method, the middle level re-naming the type variable"""
    import sys
    import types

    src = ("from __future__ import annotations\nfrom dataclasses import dataclass\nfrom typing import Generic, Iterable, TypeVar\n"
           "T = TypeVar('T')\nU = TypeVar('U')\n"
           f"class Jet:\n    def tgt({sig_src(r, defs)}) -> float: ...\n    def pt(self) -> float: ...\n"
           "class Bag(Generic[T]):\n    def at(self, i: int = 0) -> T: ...\n"
           "class Ranked(Bag[U]):\n    pass\n"
           "class JetList(Ranked[Jet]):\n    pass\n"
           "@dataclass\nclass Rec:\n    lead: Jet\n    jets: Iterable[Jet]\n    n: int\n"
           "class Ev:\n    def rec(self) -> Rec: ...\n    def recs(self) -> Iterable[Rec]: ...\n    def ranked(self) -> JetList: ...\n")
    mod = types.ModuleType("fadlmc_c07_model2")
    sys.modules["fadlmc_c07_model2"] = mod
    exec(src, mod.__dict__)
    g = mod.__dict__
    g["__SRC__"] = src
    return g, {"Jet": defs}


SITES = {
    # name: (template with {C} = the call on variable V, class of V, names scheme placeholders)
    "d1": ("lambda {a}: {a}.tgt({ARGS})", "Ev"),
    "d1fn": ("lambda {a}: fn({ARGS})", "fn"),
    "d2sel": ("lambda {a}: {a}.jets().Select(lambda {b}: {b}.tgt({ARGS}))", "Jet"),
    "d2where": ("lambda {a}: {a}.jets().Where(lambda {b}: {b}.tgt({ARGS}) > 1)", "Jet"),
    "d2fn": ("lambda {a}: {a}.jets().Select(lambda {b}: fn({ARGS}))", "fn"),
    "d2selmany": ("lambda {a}: {a}.jets().SelectMany(lambda {b}: {b}.trks()).Select(lambda {c}: {c}.tgt({ARGS}))", "Trk"),
    "d3": ("lambda {a}: {a}.jets().Select(lambda {b}: {b}.trks().Select(lambda {c}: {c}.tgt({ARGS})))", "Trk"),
    "d3where": ("lambda {a}: {a}.jets().Select(lambda {b}: {b}.trks(2).Where(lambda {c}: {c}.tgt({ARGS}) > {b}.pt()))", "Trk"),
    "d3fn": ("lambda {a}: {a}.jets().Select(lambda {b}: {b}.trks().Select(lambda {c}: fn({ARGS})))", "fn"),
    "arg": ("lambda {a}: {a}.jets().Select(lambda {b}: {b}.tgt({ARGS}) + {a}.a())", "Jet"),
    "twice": ("lambda {a}: {a}.tgt({ARGS}) + {a}.jets().Select(lambda {b}: {b}.pt()).First()", "Ev"),
    "after": ("lambda {a}: {a}.jets().Select(lambda {b}: {b}.pt()).First() + {a}.tgt({ARGS})", "Ev"),
    # a method on the result of a registered function whose own call had to be completed
    "d1fnchain": ("lambda {a}: pick({a}.jets()).tgt({ARGS})", "Jet"),
    "d1fnchainkw": ("lambda {a}: pick(n=1, js={a}.jets()).tgt({ARGS})", "Jet"),
    "d2fnchain": ("lambda {a}: {a}.jets().Select(lambda {b}: pick({a}.jets()).tgt({ARGS}) + {b}.pt())", "Jet"),
    # the call under test is the value of a keyword argument of another typed call
    "kwvalue": ("lambda {a}: wrap(x={a}.tgt({ARGS}))", "Ev"),
    "kwvalue-d2": ("lambda {a}: {a}.jets().Select(lambda {b}: wrap(mode='c', x={b}.tgt({ARGS})))", "Jet"),
    "kwvalue-meth": ("lambda {a}: {a}.jets(kind={a}.tgt({ARGS})).Select(lambda {b}: {b}.pt())", "Ev"),
    # a method of a user's own iterable class (also under names the stream class uses itself)
    "itercoll": ("lambda {a}: {a}.jvec().tgt({ARGS})", "JetVec"),
    # the typed object comes out of a subscript: constant, negative, computed
    "sub0": ("lambda {a}: {a}.jets()[0].tgt({ARGS})", "Jet"),
    "subneg": ("lambda {a}: {a}.jets()[-1].tgt({ARGS})", "Jet"),
    "subexpr": ("lambda {a}: {a}.jets()[{a}.idx()].tgt({ARGS})", "Jet"),
    "subneg-d2": ("lambda {a}: {a}.jets().Select(lambda {b}: {b}.trks()[-1].tgt({ARGS}))", "Trk"),
    # a nested operator on ANOTHER item type inside the filter of a Where, then an operator on the filtered collection
    "where-nested-then-select": ("lambda {a}: {a}.jets().Where(lambda {b}: {b}.trks().Where(lambda {c}: {c}.q() > 1).Count() > 0)"
                                 ".Select(lambda {b}: {b}.tgt({ARGS}))", "Jet"),
    "select-nested-then-where": ("lambda {a}: {a}.jets().Select(lambda {b}: {b}.trks().Select(lambda {c}: {c}.q()).Count())"
                                 ".Where(lambda v: v > {a}.tgt({ARGS})).Count()", "Ev"),
    "after2": ("lambda {a}: {a}.jets().Select(lambda {b}: {b}.trks().Select(lambda {c}: {c}.q()).First() + {b}.tgt({ARGS}))", "Jet"),
}
COLLVAR = "collvar"  # stage 1: Select(lambda e: e.jets()); stage 2: lambda js: js.Select(lambda j: js.First().tgt(ARGS))
DICT_SITE = ("dict", "Jet")  # two stages: Select(lambda e: {'js': e.jets()}) then Select(lambda d: d.js.Select(lambda j: j.tgt(ARGS)))


class C07(Check):
    pid = "C07"
    title = "Typed call sites are normalised to full positional form"
    rule = ("every signature with r required and o defaulted parameters (r+o <= N, defaults of type int/str/float/bool, "
            "two default assignments), every call shape without duplicate/unknown names (number of positionals x "
            "subset of the rest as keywords x every keyword order: the shapes inspect.Signature.bind accepts plus the "
            "ones that only omit required parameters), for a method on a typed class and a func_adl_callable function, "
            "at lambda depth 1..3 reached through Select / Where / SelectMany of typed collections and through a "
            "dictionary field of a previous stage, with distinct or re-used lambda parameter names, with the method "
            "name unique or shared between three classes with different defaults. Oracle: "
            "Signature.bind(...).apply_defaults(): emitted call has no keywords and one positional argument per "
            "declared parameter in order; user arguments compared by dump, defaults by literal value and type; "
            "missing required => ValueError; stream operators inside the lambda keep the user's arguments. "
            "Non-trivial = call shape that needs a keyword moved or a default filled")
    assumptions = ["argument expressions are distinct integer constants and one attribute call, so binding is visible",
                   "call shapes with duplicate or unknown names (which Python rejects) are outside the alphabet"]

    def spaces(self, tier):
        Q = tier == "quick"
        N = 3 if Q else 4

        def cases(N=N):
            out = []
            for (r, defs) in signatures(N):
                n = r + len(defs)
                for shape in call_shapes(n):
                    for site in list(SITES) + ["dict", "collvar"] + (list(MODEL2) if n <= 2 else []):
                        for names in (("e", "j", "t"), ("e", "e", "e")):
                            if names[0] == names[1] and site in ("arg", "d3where", "d2fnchain", "select-nested-then-where"):
                                continue  # these sites mention the outer parameter inside the inner lambda
                            if site in MODEL2:
                                out.append((r, defs, shape, site, names, False))
                                continue
                            for shared in (False, True):
                                out.append((r, defs, shape, site, names, shared))
                            if site in ("d1", "d2sel", "d3") and names[0] != names[1]:
                                # the method is called like an attribute of the stream class, or has no usable return type
                                for variant in ("name:value", "name:Where", "ret:none", "ret:Any"):
                                    out.append((r, defs, shape, site, names, variant))
                            if site in ("d1", "d2sel", "d1fn") and names[0] != names[1] and n <= 2:
                                # keyword-only parameters behind the signature (required / defaulted): positional in the emitted call too
                                for kr, kd in ((1, 0), (0, 1), (1, 1)):
                                    for kwsub in itertools.chain.from_iterable(itertools.permutations(range(n, n + kr + kd), k) for k in range(kr + kd + 1)):
                                        out.append((r, defs, (shape[0], tuple(shape[1]) + tuple(kwsub)), site, names, f"kwonly:{kr}{kd}"))
                            if site == "itercoll" and names[0] != names[1]:
                                for variant in ("name:First", "name:Count", "name:Select"):
                                    out.append((r, defs, shape, site, names, variant))
            return out
        return [Space(f"signatures<={N}", {"max_params": N, "sites": list(SITES) + ["dict"], "names": "distinct / re-used",
                                           "method name": "unique / shared by 3 classes"}, cases, runner="run_case")]

    def run_case(self, payload):
        from func_adl import EventDataset

        r, defs, shape, site, names, shared = payload
        defs = tuple(defs)
        bind.reset_type_registries()
        mname, ret = "tgt", " -> float"
        kreq = kdef = 0
        if isinstance(shared, str) and shared.startswith("kwonly:"):
            kreq, kdef = int(shared[7]), int(shared[8])
            KWONLY[:] = [kreq, kdef]
            try:
                g, class_defs = build_model(r, defs, False)
            finally:
                KWONLY[:] = [0, 0]
        elif isinstance(shared, str):
            kind, val = shared.split(":")
            if kind == "name":
                mname = val
            else:
                ret = "" if val == "none" else " -> Any"
            g, class_defs = build_model(r, defs, False, mname, ret)
        elif site in MODEL2:
            g, class_defs = _build_model2(r, defs)
        else:
            g, class_defs = build_model(r, defs, shared)
        n = r + len(defs) + kreq + kdef
        npos, kws = shape
        # user arguments: distinct constants; the last one an expression of the enclosing lambda's parameter
        argsrc = {i: str(10 + i) for i in range(n)}
        parts = [argsrc[i] for i in range(npos)] + [f"p{i}={argsrc[i]}" for i in kws]
        ARGS = ", ".join(parts)
        a, b, c = names

        class DS(EventDataset):
            async def execute_result_async(self, q, title=None):
                return q

        res = {"n": 1, "nt": [], "oc": [], "tags": {}, "viol": []}
        canon = repr(payload)
        # ---------------- expected binding by Python itself
        tgt_cls = SITES[site][1] if site not in ("dict", "collvar") and site not in MODEL2 else "Jet"
        want_defs = tuple(class_defs[tgt_cls]) + (None,) * kreq + tuple(f"kwd{i}" for i in range(kdef))
        first_default = r
        f = g["fn"] if tgt_cls == "fn" else getattr(g[tgt_cls], mname)
        sig = inspect.signature(f)
        params = [p for p in sig.parameters.values() if p.name != "self"]
        given = {i: argsrc[i] for i in list(range(npos)) + list(kws)}
        missing = [i for i in list(range(r)) + list(range(r + len(defs), r + len(defs) + kreq)) if i not in given]
        nontrivial = bool(kws) or len(given) < n
        if nontrivial:
            res["nt"].append(canon)
        try:
            if site == "dict":
                s0 = DS(g["Ev"]).Select(f"lambda {a}: {{'js': {a}.jets(), 'n': {a}.a()}}")
                s = s0.Select(f"lambda {b}: {b}.js.Select(lambda {c}: {c}.tgt({ARGS}))")
            elif site in MODEL2:
                s = DS(g[MODEL2[site][0]]).Select(MODEL2[site][1].format(a=a, b=b, c=c, ARGS=ARGS))
            elif site == "collvar":
                s0 = DS(g["Ev"]).Select(f"lambda {a}: {a}.jets()")
                s = s0.Select(f"lambda js: js.Select(lambda {c}: js.First().tgt({ARGS}) + {c}.pt())")
            else:
                lam = SITES[site][0].format(a=a, b=b, c=c, ARGS=ARGS).replace(".tgt(", f".{mname}(")
                s = DS(g["Ev"]).Select(lam)
        except ValueError as e:
            res["oc"].append("ValueError")
            if not missing:
                res["viol"].append({"kind": "refused-complete-call", "canon": canon, "msg": str(e)[:160]})
            return res
        except Exception as e:
            res["oc"].append("internal")
            res["viol"].append({"kind": f"internal-error:{type(e).__name__}", "canon": canon, "msg": str(e)[:160]})
            return res
        if missing:
            res["oc"].append("missing-required-accepted")
            res["viol"].append({"kind": "missing-required-accepted", "canon": canon,
                                "msg": f"p{missing[0]} has no default and was not given: {ast.unparse(s.query_ast.args[1])[:200]}"})
            return res
        out = s.query_ast.args[1]
        calls = [x for x in ast.walk(out) if isinstance(x, ast.Call) and (
            (isinstance(x.func, ast.Attribute) and x.func.attr == mname) or
            (isinstance(x.func, ast.Name) and x.func.id == "fn"))]
        if len(calls) != 1:
            res["viol"].append({"kind": "call-site-lost", "canon": canon, "msg": ast.unparse(out)[:200]})
            return res
        call = calls[0]
        shown = ast.unparse(call)
        if call.keywords:
            res["oc"].append("keywords-left")
            res["viol"].append({"kind": "keywords-left", "canon": canon, "msg": shown})
            return res
        if len(call.args) != n:
            res["oc"].append("wrong-arity")
            res["viol"].append({"kind": "not-all-parameters-present", "canon": canon, "msg": f"{shown} for {n} parameters"})
            return res
        for i, arg in enumerate(call.args):
            if i in given:
                if ast.dump(arg) != ast.dump(ast.parse(given[i], mode="eval").body):
                    res["viol"].append({"kind": "user-argument-misplaced", "canon": canon, "msg": f"param {i}: {shown}"})
                    return res
            else:
                d = want_defs[i - r]
                try:
                    v = ast.literal_eval(arg)
                except Exception:
                    v = object()
                if not _same_default(v, d):
                    res["oc"].append("wrong-default")
                    res["viol"].append({"kind": "wrong-default", "canon": canon,
                                        "msg": f"param {i}: emitted {ast.unparse(arg)} declared {d!r}: {shown}"})
                    return res
        # stream operators inside the lambda keep the user's arguments
        for x in ast.walk(out):
            if isinstance(x, ast.Call) and isinstance(x.func, ast.Attribute) and \
                    x.func.attr in ("Select", "Where", "SelectMany", "First", "Count") and x.func.attr != mname:
                want_n = 0 if x.func.attr in ("First", "Count") else 1
                if len(x.args) != want_n or x.keywords:
                    res["viol"].append({"kind": "stream-operator-arguments-changed", "canon": canon, "msg": ast.unparse(x)[:150]})
        res["oc"].append("normalised" if nontrivial else "already-complete")
        return res

    def render(self, space_name, payload):
        return repr(payload)


CHECK = C07()
