"""C11 - streams are immutable values."""
from .. import explore, streams
from ..core import Check, Space

DERIVE = ["Select", "Where", "SelectMany", "Select2", "SelectSame", "SelectAst", "SelectAstSame", "SelectCall", "SelectCallSame", "MD0", "MD1", "QMD", "Awk"]
DERIVE_T = DERIVE + ["TTree", "Pandas", "Parquet", "WhereCall"]
EXEC = ["Value"]
EXEC_T = ["Value", "ValueAsync", "ValueT"]


class Model:
    def __init__(self, derive, execs, roots=(1, 1, 1, 0)):
        self.derive, self.execs, self.roots = derive, execs, roots

    def fresh(self):
        return streams.World(*self.roots)

    def enabled(self, w):
        ops = []
        for i in range(len(w.streams)):
            if not w.terminal[i]:
                for d in self.derive:
                    ops.append((d, i, (("a", 1),)) if d == "QMD" else (("QMD", i, (("b", 2),)) if d == "QMDb" else (d, i)))
            if not w.rootless[w.root[i]]:  # a stream without a dataset cannot be executed
                for e in self.execs:
                    ops.append((e, i))
        return ops

    def op_name(self, op):
        return op[0]

    def outcomes(self, w):
        return {"exec" if w.last else "derive"}

    def key(self, w):
        return w.key()

    def apply(self, w, op):
        w.apply(op)
        viol = []
        n_old = len(w.streams) - (0 if w.last is not None else 1)
        for j in range(n_old):
            now = w.observe(w.streams[j])
            if now != w.snap[j]:
                what = "item-type" if now[0] == w.snap[j][0] else "query-ast"
                viol.append({"kind": f"earlier-stream-changed:{what}:by-{op[0]}",
                             "msg": f"stream #{j} ({w.deriv[j]}) changed after {op}: was {w.snap[j][0][:160]} "
                                    f"now {now[0][:160]}"})
                break
        if not viol:
            for s2, snap in w.kept:
                now = w.observe(s2)
                if now != snap:
                    what = "item-type" if now[0] == snap[0] else "query-ast"
                    viol.append({"kind": f"stream-made-in-a-callback-changed:{what}:by-{op[0]}",
                                 "msg": f"after {op}: was {snap[0][:160]} | {snap[1]} now {now[0][:160]} | {now[1]}"})
                    break
        return viol


class C11(Check):
    pid = "C11"
    title = "Streams are immutable values"
    state_based = True
    min_outcomes = 2
    rule = ("breadth-first exploration of every history of derive/execute operations up to the stated depth over "
            "a forest rooted at one untyped and one typed dataset (class callback attaching MetaData, method "
            "callback attaching EMPTY MetaData, defaulted parameters so the type follower rewrites call sites; lambdas "
            "as strings, as Python callables, as one user-held ast.Lambda / Module-wrapped AST handed to several "
            "streams; executors that record, fail, or edit the tree they are handed in place); "
            "every operation is applicable to every live stream (branching, siblings); after every transition the "
            "annotated dump and item type of EVERY earlier stream - including the streams the callbacks made and kept - must equal the "
            "values recorded at its creation. "
            "States are de-duplicated by a heap-graph key that includes node sharing")
    assumptions = [
        "observation = ast.dump-equivalent serialisation plus the _q_metadata/_func_adl_executor/_eds_object "
        "annotations, and repr(item_type)",
        "value_async is driven to completion by hand (the executor returns without suspending)",
    ]
    level_text = ("explicit-state model checking of the implementation itself: all operation histories to the "
                  "stated depth, invariant evaluated on every live stream after every transition")

    def spaces(self, tier):
        Q = tier == "quick"
        out = []
        plan = [("quick", 3, 1), ("mut", 3, 1), ("astargs", 3, 1), ("qmd", 4, 2)] if Q else \
            [("quick", 4, 2), ("wide", 3, 1), ("narrow", 5, 2), ("mut", 4, 2), ("astargs", 4, 2), ("qmd", 5, 2)]
        for mname, depth, plen in plan:
            m = self._model(mname)
            out.append(Space(f"histories<={depth}:{mname}", {"depth": depth, "menu": m.derive + m.execs, "roots": 2},
                             (lambda m=m, mname=mname, depth=depth, plen=plen:
                              [(mname, depth, p) for p in _prefixes(m, plen)]), runner="run_prefix"))
        return out

    def pair_menu(self, tier):
        """every depth-2 subtree, explored as the first (and second) thing a pristine process does: state that the
        library keeps per process (parse caches, interned nodes) is then seen in its initial condition"""
        m = self._model("quick")
        m2 = self._model("mut")
        m3 = self._model("astargs")
        return [("pristine", "run_prefix", ("quick", 2, p)) for p in _prefixes(m, 1)] + \
               [("pristine", "run_prefix", ("astargs", 2, p)) for p in _prefixes(m3, 1) if "AstSame" in p[0][0]] + \
               [("pristine", "run_prefix", ("mut", 2, p)) for p in _prefixes(m2, 1) if p[0][0] in ("SelectMod", "ValueMut")]

    def _model(self, name):
        if name == "quick":
            return Model(DERIVE, EXEC)
        if name == "narrow":
            return Model(["Select2", "SelectSame", "MD0", "QMD", "SelectAst"], ["Value"])
        if name == "mut":
            # a lambda handed over as ONE Module-wrapped AST; an executor that edits the tree it receives in place
            return Model(["Select", "SelectSame", "SelectMod", "SelectAstSame", "MD0", "QMD"], ["Value", "ValueMut"])
        if name == "astargs":
            # ONE user-held AST per operator, handed to streams with and without a dataset, typed and untyped
            return Model(["SelectAstSame", "WhereAstSame", "SelectManyAstSame", "SelectMod", "Select"], ["Value"], roots=(1, 1, 0, 2))
        if name == "qmd":
            # query metadata with two different keys, empty MetaData in between, executions: one level deeper than the wide menus
            return Model(["QMD", "QMDb", "MD0", "Select"], ["Value"], roots=(1, 0, 0, 0))
        if name == "wide":
            return Model(DERIVE_T, EXEC_T)
        raise ValueError(name)

    def run_prefix(self, payload):
        mname, depth, prefix = payload
        m = self._model(mname)
        prefix = tuple(tuple(tuple(x) if isinstance(x, list) else x for x in op) for op in prefix)
        r = explore.explore(m, prefix, depth)
        res = {"n": r["trans"], "nt": [], "oc": sorted(r["outcomes"]), "tags": dict(r["ops"]), "viol": [],
               "states": r["states"], "trans": r["trans"],
               "sample_text": f"subtree below {prefix}: {len(r['states'])} states, {r['trans']} transitions"}
        for v in r["viol"]:
            res["viol"].append({"kind": v["kind"], "canon": repr(v["hist"]), "msg": v["msg"]})
        return res

    def standalone(self, space_name, payload, viol):
        import ast as _ast

        try:
            canon = viol["canon"].split("|")[-1]
            hist = _ast.literal_eval(canon)
            roots = (1, 1, 1)
            try:
                roots = self._model(payload[0] if not isinstance(payload[0], tuple) else "quick").roots
            except Exception:
                pass
            return streams.history_code(roots, hist)
        except Exception:
            return None

    def render(self, space_name, payload):
        return repr(payload)


def _prefixes(m, plen):
    "all violation-free histories of length plen (their subtrees partition the deeper histories)"
    out = [()]
    for _ in range(plen):
        nxt = []
        for h in out:
            w = m.fresh()
            for op in h:
                m.apply(w, op)
            for op in m.enabled(w):
                nxt.append(h + (op,))
        out = nxt
    return out


CHECK = C11()
