"""C01 - a fluent query means what the user's Python chain computes."""
import ast
import copy
import itertools
import linecache
import sys
import types

from .. import bind, refsem
from .. import terms as T
from ..core import Check, Space

S = frozenset
TYPED_SRC = '''
from __future__ import annotations
from typing import *
class TTrk:
    def ptS(self, k: int = 5) -> int: ...
class TJet:
    def ptS(self, k: int = 2) -> int: ...
    def Trs(self, w: int = 1) -> Iterable[TTrk]: ...
class TEv:
    def met(self, s: int, t: int = 1) -> int: ...
    def Jets(self, kind: str = 'def') -> Iterable[TJet]: ...
'''
MODULE_HEAD = '''
from dataclasses import dataclass
from typing import NamedTuple
V = 3
W = 1
j = 2
t = 5
def helper(x): return x + 1
def helper3(rows, cut): return rows.Select(lambda j: j.tr.Where(lambda v: v.q > cut).Count())
def helper2(x, y):
    "two parameters"
    return (y, x)
@dataclass
class DC:
    x: int
    y: int = 7
class NT(NamedTuple):
    x: int
    y: int
def helperd(x, lo=2, hi=100): return (x, lo, hi)
from dataclasses import field
@dataclass
class DCK:
    x: int
    k: int = field(default=9, kw_only=True)
    y: int = 7
@dataclass
class DCI:
    x: int
    src: int = field(default=5, init=False)
    y: int = 7
'''
# curated bodies per item kind (beyond the enumerated grammar): sugar, captures, helpers, typed methods
EXTRA = {
    "Ev": [
        ("I", "e.met(2)"), ("I", "e.met(s=2)"), ("I", "e.met(2, t=3)"), ("SJ", "e.Jets()"), ("SJ", "e.Jets('x')"),
        ("SI", "e.Jets().Select(lambda j: j.ptS())"), ("SI", "e.Jets().Select(lambda e: e.ptS(k=3))"),
        ("I", "e.Jets().Where(lambda j: j.ptS(1) > 10).Count()"),
        ("SI", "[j.pt for j in e.jets]"), ("SI", "[j.pt + e.a for j in e.jets if j.pt > 1]"),
        ("SI", "[j.pt for j in e.jets if j.pt > 1 if j.eta > 1]"), ("SI", "(t.q for t in [x for x in e.trks])"),
        ("SSI", "[[t.q for t in j.tr] for j in e.jets]"), ("I", "len([j for j in e.jets if j.pt > e.a])"),
        ("X", "(e.a, e.jets.Select(lambda j: (j.pt, j.eta)))"), ("X", "(e.a, (e.b, e.jets.Count()))"),
        ("B", "e.a > 1 and e.b > 1"), ("B", "not e.a > 1"), ("B", "e.jets.Count() > 1 or e.a > 2"),
        ("I", "e.a if e.a > e.b else e.b"), ("I", "-e.a + abs(e.b)"),
        ("I", "e.a + V"), ("I", "helper(e.a)"), ("X", "helper2(e.a, e.b)"), ("X", "helper2(y=e.a, x=e.b)"),
        ("SI", "e.jets.Select(lambda j: helper(j.pt) + V)"), ("SI", "[helper(j.pt) for j in e.jets if j.pt > W]"),
        ("D", "DC(e.a, e.b)"), ("D", "DC(y=e.a, x=e.b)"), ("D", "NT(e.a, y=e.b)"), ("X", "(DC(e.a, e.b), e.b)"),
        ("SJ", "e.jets.Where(lambda j: j.pt > V)"), ("SJ", "e.jets"), ("I", "e.jets.Select(lambda j: j.pt).First()"),
        ("SI", "e.jets.SelectMany(lambda j: j.tr).Select(lambda t: t.q)"),
        ("SI", "e.jets.Select(lambda j: j.tr.Count())"), ("I", "(lambda k: k + e.a)(e.b)"),
        # a parameter of an outer lambda used bare two levels down, spelled like a module global (j = 2, t = 5)
        ("X", "e.jets.Select(lambda j: j.tr.Select(lambda t: (t.q, j)))"),
        ("X", "e.jets.Select(lambda j: j.tr.Where(lambda t: t.q > j.pt).Select(lambda t: (t, j)))"),
        # one bound sequence used twice (substitution must copy)
        ("X", "(lambda s: (s.Count(), s.Where(lambda k: k > 1)))(e.jets.Select(lambda j: j.pt + 1))"),
        ("X", "(lambda s: (s.Where(lambda k: k.pt > 1).Select(lambda k: k.pt), s.Where(lambda m: m.eta > 1).Count()))(e.jets)"),
        # helper with lambdas nested two deep, argument mentioning the innermost bound name
        ("SSI", "e.jets.Select(lambda v: helper3(e.jets, v.pt))"), ("SI", "helper3(e.jets, e.a)"),
        ("SI", "e.jets.SelectMany(lambda j: j.tr).Select(lambda t: t.q + e.a)"),
        ("SI", "e.jets.SelectMany(lambda j: j.tr).Where(lambda t: t.q > e.a).Select(lambda t: t.q)"),
        ("SI", "e.jets.Select(lambda j: j.pt).Where(lambda p: p > e.a).Select(lambda p: p + e.b)"),
        ("SSI", "e.jets.Select(lambda j: j.tr.Select(lambda t: t.q + j.pt + e.a))"),
        # a nested lambda re-using the outer parameter's name, the outer parameter used again afterwards; the two classes
        # declare the same method with different defaults
        ("SI", "e.Jets().Select(lambda j: j.Trs().Select(lambda j: j.ptS()).Count() + j.ptS())"),
        ("SI", "e.Jets().Select(lambda e: e.Trs().Select(lambda e: e.ptS(k=1)).Count() + e.ptS())"),
        ("X", "e.Jets().Select(lambda j: (j.Trs().Select(lambda j: j.ptS()), j.ptS()))"),
        # a keyword argument of a method called on First(...)
        ("I", "e.jets.First().ptS(k=3)"), ("I", "e.Jets().First().ptS(k=3)"), ("I", "e.jets.Where(lambda j: j.pt > 1).First().ptS(k=3) + 1"),
        # a helper with two defaults, the later one given by keyword; chained filters with a top-level or; dataclasses whose
        # constructor parameters are not their fields in declaration order
        ("X", "helperd(e.a, hi=e.b)"), ("X", "helperd(hi=e.b, x=e.a)"), ("X", "helperd(e.a, 3)"),
        ("SI", "e.jets.Where(lambda j: j.pt > 1 or j.eta > 1).Where(lambda j: j.pt > 0).Select(lambda j: j.pt)"),
        ("SI", "e.jets.Where(lambda j: j.pt > 0).Where(lambda j: j.pt > 1 or j.eta > 1).Select(lambda j: j.pt)"),
        ("I", "e.jets.Where(lambda j: j.pt > 2 or j.eta > 0).Select(lambda j: j.pt).Where(lambda p: p > 0).Count()"),
        ("I", "DCK(e.a, e.b).y"), ("I", "DCI(e.a, e.b).y + 1"), ("X", "(DCK(e.a, e.b, k=1).k, DCK(e.b, e.a, k=e.a).y)"), ("I", "DCK(e.a, e.b).y + DCI(e.b, e.a).y"),
        ("I", "(lambda: e.a)() + e.b"), ("X", "(lambda x, y: (y, x))(e.a, e.b)"), ("X", "(lambda x, y: (y, x))(y=e.a, x=e.b)"),
    ],
    "I": [("I", "e + 1"), ("B", "e > 1"), ("X", "(e, e)"), ("I", "helper(e)"), ("I", "e + V"), ("I", "-e"),
          ("I", "e if e > 1 else 0")],
    "SJ": [("X", "(e.Count(), e.Where(lambda k: k.pt > 1).Select(lambda k: k.pt + 1))"),
           ("I", "e.Count()"), ("SI", "e.Select(lambda j: j.pt)"), ("SJ", "e.Where(lambda j: j.pt > 1)"),
           ("SI", "[j.pt for j in e]"), ("I", "len(e)"), ("SI", "e.Select(lambda j: j.ptS())"),
           ("ST", "e.SelectMany(lambda j: j.tr)"), ("B", "e.Count() > 1")],
    "SI": [("X", "(e.Count(), e.Where(lambda k: k > 1))"), ("I", "e.Count()"), ("SI", "e.Select(lambda v: v + 1)"), ("SI", "e.Where(lambda v: v > 1)"),
           ("SI", "[v + V for v in e]"), ("B", "len(e) > 0")],
    "J": [("I", "e.pt"), ("I", "e.ptS()"), ("I", "e.ptS(k=1)"), ("B", "e.pt > 1"), ("ST", "e.tr"), ("ST", "e.Trs()"),
          ("X", "(e.pt, e.eta)"), ("I", "e.tr.Count()")],
    "X": [("I", "e[0]"), ("X", "(e[1], e[0])")],
    "D": [("I", "e.x"), ("I", "e['x']"), ("I", "e.y")],
    "B": [("B", "not e")],
    "ST": [("I", "e.Count()"), ("SI", "e.Select(lambda t: t.q)")],
    "SSI": [("SI", "e.SelectMany(lambda s: s)" if False else "e.Select(lambda s: s.Count())")],
}
SEQ_ELEM = {"SJ": "J", "SI": "I", "ST": "T", "SSI": "SI"}


def chains(K, menu_cut=None):
    "stage lists [(op, body)] over the event stream with item kinds tracked by the menu"
    out = []
    level = [((), "Ev")]
    for depth in range(K):
        nxt = []
        for stages, item in level:
            menu = EXTRA.get(item, [])
            if menu_cut and depth >= 1:
                menu = menu[:menu_cut]
            for kind, body in menu:
                ops = [("Select", kind)]
                if kind == "B":
                    ops.append(("Where", item))
                if kind in SEQ_ELEM:
                    ops.append(("SelectMany", SEQ_ELEM[kind]))
                for op, new_item in ops:
                    st = stages + ((op, body),)
                    out.append(st)
                    nxt.append((st, new_item))
        level = nxt
    return out


_N = [0]


class C01(Check):
    pid = "C01"
    title = "A fluent query means what the user's Python chain computes"
    rule = ("every chain of up to K Select/Where/SelectMany stages whose lambdas come from a typed-by-construction menu "
            "(attributes, method calls with omitted / keyword defaults, arithmetic, comparisons, boolean operators, "
            "conditionals, tuples, dataclass and NamedTuple sugar, nested Select/Where/SelectMany/First/Count, "
            "comprehensions with 0..2 filters and nesting, captured globals, captured one- and two-parameter helpers, "
            "called lambdas), built through the REAL fluent API x supply mode {Python callables written one per line "
            "in a generated module, source strings, ast.Lambda} x {untyped dataset, typed dataset whose annotations "
            "mirror the data classes} x terminal {none, AsAwkwardArray, AsROOTTTree}, plus branching (two children "
            "of one shared parent, all three executed). Oracle: the AST the executor receives from value(), "
            "evaluated by CPython (refsem) on every dataset, must equal what the SAME chain computes when Python "
            "runs it on the in-memory sequence; the same after each backend pass alone and after all six orders "
            "of change_extension_functions_to_calls / aggregate_node_transformer / simplify_chained_calls. "
            "Non-trivial = distinct (chain, mode, dataset kind, terminal)")
    assumptions = [
        "typed dataset: annotated classes TEv/TJet mirror the untyped data objects' methods and defaults",
        "captured values / helpers / dataclass sugar exist only for callables (strings and ASTs cannot capture)",
        "Sum/Max/Min have no Python-side meaning on sequences here (C19); layouts are C03's subject",
    ]

    def spaces(self, tier):
        Q = tier == "quick"
        K = 2

        def cases(K=K, Q=Q):
            out = []
            for st in chains(K, menu_cut=None if not Q else 14):
                cap = any(x in b for _, b in st for x in ("V", "W", "helper", "DC(", "NT(", "DCK(", "DCI("))
                for mode in ("call", "str", "ast"):
                    if cap and mode != "call":
                        continue
                    for typed in (False, True):
                        for term in ((None, "awk", "ttree", "pandas", "parquet") if len(st) == 1 or not Q else (None,)):
                            out.append((mode, typed, term, st))
            return out

        def branch_cases():
            out = []
            def nocap(st):
                return not any(x in b for _, b in st for x in ("V", "W", "helper", "DC(", "NT(", "DCK(", "DCI("))
            ones = [c for c in chains(1) if nocap(c)]
            for (p,) in ones[:20]:
                kids = [c for c in chains(2) if len(c) == 2 and c[0] == p and nocap(c)][:6]
                for a, b in itertools.combinations(kids, 2):
                    out.append(("branch", False, None, (p, a[1], b[1])))
            return out
        sp = [Space(f"chains K<={K}", {"K": K, "modes": ["call", "str", "ast"], "datasets": ["untyped", "typed"],
                                       "terminals": [None, "AsAwkwardArray", "AsROOTTTree"]}, cases, runner="run_chain"),
              Space("branching", {"shape": "parent + two children, all executed"}, branch_cases, runner="run_branch")]
        nmax = 4 if Q else 6
        sp.append(Space(f"enumerated-bodies<={nmax}", {"grammar": "E1 full grammar (method forms) over the event parameter",
                                                       "size": nmax, "names": "every admissible naming from {e, j}",
                                                       "modes": ["call", "str", "ast"]},
                        (lambda nmax=nmax: enumerated(nmax)), runner="run_chain"))
        if not Q:
            sp.append(Space("chains K=3", {"K": 3, "menu": "first 6 bodies per kind after stage 1", "mode": "call"},
                            (lambda: [("call", t, None, st) for st in chains(3, menu_cut=6) if len(st) == 3
                                      for t in (False, True)]), runner="run_chain"))
        return sp

    # ------------------------------------------------------------------ machinery
    def _module(self, stages):
        _N[0] += 1
        fn = f"<c01mod{_N[0]}>"
        # W is also a variable of the enclosing function (it hides the module global W = 1, as in Python)
        text = MODULE_HEAD + "def chain(src):\n    W = 9\n    return (\n        src\n" + "".join(
            f"        .{op}(lambda e: {body})\n" for op, body in stages) + "    )\n"
        linecache.cache[fn] = (len(text), None, text.splitlines(True), fn)
        g = {"len": len, "list": list, "abs": abs}
        exec(compile(text, fn, "exec"), g)
        return g, fn

    def _ds(self, typed):
        from func_adl import EventDataset

        log = []

        class DS(EventDataset):
            async def execute_result_async(self, a, title=None):
                log.append(a)
                return len(log)

        if typed:
            mod = types.ModuleType("fadlmc_c01_typed")
            sys.modules["fadlmc_c01_typed"] = mod
            exec(TYPED_SRC, mod.__dict__)
            return DS(mod.TEv), log
        return DS(), log

    def _build(self, mode, ds, stages, g):
        if mode == "call":
            return g["chain"](ds)
        s = ds
        for op, body in stages:
            lam = f"lambda e: {body}"
            s = getattr(s, op)(lam if mode == "str" else ast.parse(lam).body[0].value)
        return s

    def _terminal(self, s, term):
        if term == "awk":
            return s.AsAwkwardArray(["c1"])
        if term == "ttree":
            return s.AsROOTTTree("f.root", "tree", ["c1"])
        if term == "pandas":
            return s.AsPandasDF(["c1"])
        if term == "parquet":
            return s.AsParquetFiles("f.pq", ["c1"])
        return s

    def _expected(self, g, term):
        def f(data):
            r = g["chain"](refsem.Seq(data))
            if term == "awk":
                return ("awkward", list(r), ["c1"])
            if term == "ttree":
                return ("ttree", list(r), ["c1"], "tree", "f.root")
            if term == "pandas":
                return ("pandas", list(r), ["c1"])
            if term == "parquet":
                return ("parquet", list(r), ["c1"], "f.pq")
            return r
        return f

    def _judge(self, q, want_fn, res, canon, label):
        from func_adl.ast import aggregate_node_transformer, change_extension_functions_to_calls, simplify_chained_calls

        passes = {
            "ext": lambda a: change_extension_functions_to_calls(a),
            "agg": lambda a: aggregate_node_transformer().visit(a),
            "simp": lambda a: simplify_chained_calls().visit(a),
        }
        variants = [("as-delivered", ())] + [(p, (p,)) for p in passes] + \
            [("+".join(o), o) for o in itertools.permutations(passes)]
        datasets = refsem.datasets(False)
        wants = []
        for d in datasets:
            try:
                wants.append(("ok", refsem.norm(want_fn(d))))
            except Exception as e:
                wants.append(("err", type(e).__name__))
        if not any(w[0] == "ok" for w in wants):
            raise RuntimeError(f"harness: the Python chain fails on every dataset: {canon} {wants[-1]}")
        for vname, order in variants:
            a = copy.deepcopy(q)
            try:
                for p in order:
                    bind.reset_globals()
                    a = passes[p](a)
            except Exception as e:
                res["viol"].append({"kind": f"{label}{vname}:pass-raised:{type(e).__name__}", "canon": canon, "msg": str(e)[:150]})
                continue
            try:
                f = refsem.compile_query(a, extra_env={"list": list})
            except Exception as e:
                res["viol"].append({"kind": f"{label}{vname}:uncompilable", "canon": canon, "msg": f"{e}"[:150]})
                continue
            for d, w in zip(datasets, wants):
                if w[0] != "ok":
                    continue
                got = refsem.evaluate(f, d)
                res["n"] += 1
                if got != w:
                    try:
                        shown = ast.unparse(refsem.fix_ctx(copy.deepcopy(a)))
                    except Exception:
                        shown = ast.dump(a)
                    res["oc"].append("mismatch")
                    res["viol"].append({"kind": f"{label}{vname}:value-mismatch", "canon": canon,
                                        "msg": f"python {str(w[1])[:100]} ; query {str(got[1])[:100]} ; {shown[:260]}"})
                    break
            else:
                res["oc"].append("equal:" + ("as-delivered" if not order else
                                             ("rewritten-by-passes" if ast.dump(a) != ast.dump(q) else "passes-changed-nothing")))

    def run_chain(self, payload):
        mode, typed, term, stages = payload
        stages = tuple(tuple(s) for s in stages)
        canon = repr((mode, typed, term, stages))
        res = {"n": 0, "nt": [canon], "oc": [], "tags": {}, "viol": []}
        bind.reset_type_registries()
        g, fn = self._module(stages)
        try:
            ds, log = self._ds(typed)
            try:
                s = self._terminal(self._build(mode, ds, stages, g), term)
                s.value()
            except Exception as e:
                if isinstance(e, ValueError) and any(
                        op == "Where" and not isinstance(ast.parse(b, mode="eval").body, (ast.Compare, ast.BoolOp))
                        for op, b in stages):
                    # designed refusal (C10): a Where filter that is not syntactically a comparison / boolean combination
                    res["oc"].append("where-filter-of-unknown-type-refused")
                    return res
                res["oc"].append("raised")
                res["viol"].append({"kind": f"build-raised:{type(e).__name__}", "canon": canon, "msg": str(e)[:200]})
                return res
            if len(log) != 1:
                res["viol"].append({"kind": "executor-calls", "canon": canon, "msg": str(len(log))})
                return res
            self._judge(log[0], self._expected(g, term), res, canon, "")
        finally:
            linecache.cache.pop(fn, None)
        res["oc"] = sorted(set(res["oc"]))
        res["viol"] = res["viol"][:2]
        return res

    def run_branch(self, payload):
        _, typed, term, (p, a, b) = payload
        canon = repr(payload)
        res = {"n": 0, "nt": [canon], "oc": [], "tags": {}, "viol": []}
        gs = {}
        fns = []
        for name, st in (("p", (p,)), ("a", (p, a)), ("b", (p, b))):
            gs[name], fn = self._module(tuple(tuple(x) for x in st))
            fns.append(fn)
        try:
            ds, log = self._ds(typed)
            parent = getattr(ds, p[0])(f"lambda e: {p[1]}")
            ca = getattr(parent, a[0])(f"lambda e: {a[1]}")
            cb = getattr(parent, b[0])(f"lambda e: {b[1]}")
            for name, s in (("a", ca), ("p", parent), ("b", cb), ("a", ca)):
                n0 = len(log)
                s.value()
                self._judge(log[n0], self._expected(gs[name], None), res, canon, f"{name}:")
        except Exception as e:
            res["viol"].append({"kind": f"build-raised:{type(e).__name__}", "canon": canon, "msg": str(e)[:200]})
        finally:
            for fn in fns:
                linecache.cache.pop(fn, None)
        res["oc"] = sorted(set(res["oc"]))
        res["viol"] = res["viol"][:2]
        return res

    def render(self, space_name, payload):
        return repr(payload)


def enumerated(nmax):
    g = T.Grammar(prods=T.FULL - S("appkw".split()) | S(["app2"]), forms=("m",), count_forms=("m", "len"), pkg_depth=1)
    out = []
    seen = set()
    for n in range(2, nmax + 1):
        for t, x in g.gen((T.EV,), n):
            if T.has(x, {"ds"}) or not T.has(x, {"var"}):
                continue
            for nm in T.namings(x, ("e", "j"), ("e",)):
                body = T.render(x, nm, ("e",))
                if body in seen:
                    continue
                seen.add(body)
                ops = ["Select"]
                if t == T.BOOL:
                    ops.append("Where")
                if isinstance(t, tuple) and t[0] == "Seq":
                    ops.append("SelectMany")
                for op in ops:
                    for mode in ("call", "str", "ast"):
                        out.append((mode, False, None, ((op, body),)))
    return out


CHECK = C01()
