"""Bind the checks to the func_adl working tree under test.

The tree is $FADLMC_REPO (default /repo).  It is put first on sys.path and the import is
verified, so a check can never silently run against another copy.
"""
import logging
import os
import sys

REPO = os.path.realpath(os.environ.get("FADLMC_REPO", "/repo"))
GUARD = "IRIS_HEP_FUNC_ADL_VERIF"

_bound = False


def bind():
    global _bound
    if _bound:
        return
    os.environ.setdefault(GUARD, "1")
    if REPO in sys.path:
        sys.path.remove(REPO)
    sys.path.insert(0, REPO)
    for m in [m for m in sys.modules if m == "func_adl" or m.startswith("func_adl.")]:
        del sys.modules[m]
    import func_adl  # noqa

    f = os.path.realpath(func_adl.__file__)
    if not f.startswith(REPO + os.sep):
        sys.stderr.write(f"HARNESS ERROR: func_adl imported from {f}, expected under {REPO}\n")
        sys.exit(2)
    logging.disable(logging.CRITICAL)
    import warnings

    warnings.simplefilter("ignore")
    _bound = True


def reset_globals():
    """Reset every piece of func_adl module-level state (per case)."""
    import func_adl.ast.function_simplifier as fs

    fs.argument_var_counter = 0


def reset_type_registries():
    import func_adl.type_based_replacement as tbr

    tbr.reset_global_functions()
