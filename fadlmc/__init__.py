"""fadlmc - bounded-exhaustive model checking of func_adl (see /verif/DESIGN.md)."""
