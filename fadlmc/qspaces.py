"""Named, completely enumerated query spaces built from the E1 grammar (shared by several checks)."""
from . import terms as T

S = frozenset

POOL2 = ("e", "j")
POOL3 = ("e", "j", "t")
POOL_DS = ("e", "ds")  # binders spelled like the query's free name
POOL_ARG = ("arg_0", "arg_1")  # the simplifier's own fresh-name shape (an already simplified query)
POOL_ARG3 = ("arg_0", "arg_1", "arg_2")

SLICES = {
    # name: (grammar kwargs, predicate on (type, term), description)
    "full": (dict(prods=T.FULL - S("tup lst dic proj".split())), None,
             "every production except packages"),
    "fusion": (dict(prods=S("attr op".split())), lambda q: T.count_tag(q[1], "op") >= 2,
               "only attributes and the three stream operators; >= 2 operators"),
    "fusionx": (dict(prods=S("attr op bin cmp const count first".split())),
                lambda q: T.count_tag(q[1], "op") >= 2,
                "operators with + > constants Count First; >= 2 operators"),
    "binders": (dict(prods=S("attr op bin app appkw first count".split())),
                lambda q: T.binder_info(q[1])[0] >= 2,
                "called lambdas (positional and keyword), First, Count, +; >= 2 binders"),
    "pkg": (dict(prods=S("attr op tup lst dic proj".split()), pkg_depth=1),
            lambda q: T.has(q[1], {"tup", "lst", "dic"}),
            "tuple/list/dict construction and constant projection over operators"),
    "pkg2": (dict(prods=S("attr op tup dic proj".split()), pkg_depth=2, seq_attrs=("jets",),
                  int_attrs=("a", "pt")),
             lambda q: T.has(q[1], {"tup", "dic"}),
             "nested packages (depth 2), one int and one seq attribute per class"),
    "odd": (dict(prods=S("attr op tup lst dic proj oddproj bin".split()), pkg_depth=1,
                 seq_attrs=("jets",), int_attrs=("a", "pt")),
            lambda q: T.has(q[1], {"idxv", "idxe", "keyv", "idxw"}) or _has_absent_attr(q[1]),
            "literal/packaged projections with negative, slice, out-of-range, variable selectors "
            "and absent keys, in every operand position"),
    "oddapp": (dict(prods=S("attr op tup lst dic proj oddproj app const".split()), pkg_depth=1,
                    seq_attrs=("jets",), int_attrs=("a",), consts=(0, 1)),
               lambda q: T.has(q[1], {"idxe"}) and T.has(q[1], {"app", "op"}),
               "variable selectors that become constants only through substitution (called lambda / fused stage)"),
    "oddapp2": (dict(prods=S("attr tup proj app2 const".split()), pkg_depth=2, seq_attrs=(), int_attrs=("a",), consts=(1,),
                     max_pkg=2),
                lambda q: T.has(q[1], {"app2"}) and T.has(q[1], {"idx"}),
                "called two-parameter lambdas over tuples and constant projections (argument binding order)"),
    "oddapp3": (dict(prods=S("tup proj app app2".split()), pkg_depth=1, max_pkg=2),
                lambda q: T.has(q[1], {"app2"}) and T.has(q[1], {"app"}) and T.has(q[1], {"idx"}),
                "a called lambda inside a called two-parameter lambda over tuples of ds (argument binding order, name re-use)"),
    "apply2": (dict(prods=S("attr op app2 appkw bin".split()), seq_attrs=("jets",), int_attrs=("a", "pt")),
               lambda q: T.has(q[1], {"app2"}),
               "called two-parameter lambdas (positional, mixed and keyword arguments) over operators"),
    "apply0": (dict(prods=S("attr op app0 tup const".split()), seq_attrs=("jets",), int_attrs=(), max_pkg=2,
                    ops=("Select", "Where")),
               lambda q: T.has(q[1], {"app0"}) and T.count_tag(q[1], "op") >= 2,
               "called parameterless lambdas inside fusable stages"),
    "applydef": (dict(prods=S("attr op app2 appdef app bin const".split()), seq_attrs=("jets",), int_attrs=("a", "pt")),
                 lambda q: T.has_mode(q[1], "app2", (3, 4, 5)),
                 "called lambdas with a defaulted second parameter (not passed / passed) and a keyword-only default"),
    "hof": (dict(prods=S("attr op hof app bin const".split()), seq_attrs=("jets",), int_attrs=("a", "pt")),
            lambda q: T.has(q[1], {"hof"}),
            "a lambda handed to a called lambda and applied through the parameter name"),
    "sidx": (dict(prods=S("attr op sidx app bin const count".split()), seq_attrs=("jets",), int_attrs=("a",), consts=(0,)),
             lambda q: T.has(q[1], {"sidx"}),
             "sequence-valued expressions subscripted by an Int expression (constant, attribute, called-lambda parameter, Count)"),
    "apply": (dict(prods=S("attr op app appkw first meth bin".split())),
              lambda q: T.has(q[1], {"app", "first"}),
              "called lambdas and First push-through with method calls"),
}


def _has_absent_attr(t):
    if t[0] == "dattr" and t[2] == "zz":
        return True
    for c in t[1:]:
        if isinstance(c, tuple):
            if c and isinstance(c[0], str) and c[0] in T._TAGS:
                if _has_absent_attr(c):
                    return True
            else:
                for cc in c:
                    if isinstance(cc, tuple) and cc and isinstance(cc[0], str) and cc[0] in T._TAGS and _has_absent_attr(cc):
                        return True
    return False


def enumerate_sources(slice_name, lo, hi, pool, forms=("f",), extra_pred=None, with_type=False,
                      need_ds=True, annot=None, **gkw):
    kw, pred, _ = SLICES[slice_name]
    kw = dict(kw)
    kw.update(gkw)
    g = T.Grammar(forms=forms, **kw)
    out = []
    seen = set()
    for n in range(lo, hi + 1):
        for q in g.queries(n):
            if need_ds and not T.has(q[1], {"ds"}):
                continue
            if pred is not None and not pred(q):
                continue
            if extra_pred is not None and not extra_pred(q):
                continue
            for names in T.namings(q[1], pool):
                s = T.render(q[1], names)
                if s in seen:
                    continue
                seen.add(s)
                if annot is not None:
                    out.append((s, annot(q)))
                else:
                    out.append((s, T.type_str(q[0])) if with_type else s)
    return out


def describe(slice_name, lo, hi, pool, forms=("f",)):
    return {
        "grammar": SLICES[slice_name][2], "size": f"{lo}..{hi} nodes (all sizes complete)",
        "binder_names": f"every admissible assignment from pool {list(pool)}", "call_forms": list(forms),
    }
