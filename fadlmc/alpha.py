"""E1b for source text: every admissible re-naming of the lambda parameters of an expression.

Input: an expression whose lambda parameters all have distinct names.  Output: for a pool of
names, every assignment parameter -> pool name under which each reference still resolves to
the same binder (Python's own scoping rule: innermost enclosing lambda with that name) and no
free name is captured.
"""
import ast
import itertools


class _Scope(ast.NodeVisitor):
    def __init__(self):
        self.binders = []  # list of ast.arg nodes (binder id = index)
        self.refs = []  # (Name node, binder id or None, chain of binder-id-lists innermost last)
        self.chain = []  # stack of lists of binder ids (one list per enclosing lambda)
        self.kwrefs = []  # (keyword node, binder id) for (lambda x: ..)(x=..) calls
        self.groups = []  # parameter ids of each lambda

    def visit_Lambda(self, node):
        ids = []
        for a in node.args.args:
            ids.append(len(self.binders))
            self.binders.append(a)
        for d in node.args.defaults:
            self.visit(d)
        self.groups.append(ids)
        self.chain.append(ids)
        self.visit(node.body)
        self.chain.pop()

    def visit_Call(self, node):
        if isinstance(node.func, ast.Lambda) and node.keywords:
            first = len(self.binders)
            names = [a.arg for a in node.func.args.args]
            for kw in node.keywords:
                if kw.arg in names:
                    self.kwrefs.append((kw, first + names.index(kw.arg)))
        self.generic_visit(node)

    def visit_Name(self, node):
        target = None
        for ids in reversed(self.chain):
            for b in ids:
                if self.binders[b].arg == node.id:
                    target = b
                    break
            if target is not None:
                break
        self.refs.append((node, target, [list(c) for c in self.chain]))


def analyse(src):
    tree = ast.parse(src, mode="eval")
    sc = _Scope()
    sc.visit(tree.body)
    return tree, sc


def namings_src(src, pool, limit=None, allow_free_spelling=False):
    """Yield the source under every admissible naming (including ones equal to the input)."""
    tree, sc = analyse(src)
    nb = len(sc.binders)
    free = {n.id for n, b, _ in sc.refs if b is None}
    orig = [a.arg for a in sc.binders]
    count = 0
    for names in itertools.product(pool, repeat=nb):
        if not allow_free_spelling and any(n in free for n in names):
            continue  # (with allow_free_spelling a binder may be spelled like a free name that is not used below it)
        ok = True
        # parameters of one lambda must differ
        for ids in sc.groups:
            if len(ids) > 1 and len({names[i] for i in ids}) != len(ids):
                ok = False
        if not ok:
            continue
        for node, b, chain in sc.refs:
            if b is None:
                # a free name must stay free
                if any(names[i] == node.id for ids in chain for i in ids):
                    ok = False
                    break
                continue
            want = names[b]
            hit = None
            for ids in reversed(chain):
                for i in ids:
                    if names[i] == want:
                        hit = i
                        break
                if hit is not None:
                    break
            if hit != b:
                ok = False
                break
        if not ok:
            continue
        for a, nm in zip(sc.binders, names):
            a.arg = nm
        for node, b, _ in sc.refs:
            if b is not None:
                node.id = names[b]
        for kw, b in sc.kwrefs:
            kw.arg = names[b]
        yield ast.unparse(tree)
        count += 1
        if limit and count >= limit:
            break
    for a, nm in zip(sc.binders, orig):
        a.arg = nm


def n_binders(src):
    return len(analyse(src)[1].binders)
