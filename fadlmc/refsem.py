"""E2 - reference semantics ("ordinary LINQ/list semantics") and the E2b dataset family.

A query AST is evaluated by CPython's own compiler/evaluator in an environment that defines
the LINQ operators as list comprehensions.  Scoping, shadowing, short-circuiting and argument
binding are therefore Python's, independent of func_adl's substitution machinery.
"""
import ast
import copy
import functools


class Seq:
    """A lazy, re-iterable sequence (LINQ deferred execution): an element that is never
    demanded is never computed, so pushing an operation through First() - which the library
    does on purpose - is not misjudged because of an error in an element nobody asked for."""

    __slots__ = ("_f",)

    def __init__(self, src=()):
        if callable(src):
            self._f = src
        else:
            items = list(src)
            self._f = lambda: iter(items)

    def __iter__(self):
        return self._f()

    def Select(self, f):
        return Seq(lambda: (f(x) for x in self))

    def Where(self, f):
        return Seq(lambda: (x for x in self if f(x)))

    def SelectMany(self, f):
        return Seq(lambda: (y for x in self for y in f(x)))

    def First(self):
        for x in self:
            return x
        raise IndexError("First() of an empty sequence")

    def Count(self):
        return sum(1 for _ in self)

    def __len__(self):
        return self.Count()

    def __getitem__(self, i):
        if isinstance(i, int) and i >= 0:
            for k, x in enumerate(self):
                if k == i:
                    return x
            raise IndexError(i)
        return list(self)[i]


class AttrDict(dict):
    def __getattr__(self, k):
        try:
            return self[k]
        except KeyError:
            raise AttributeError(k)


class Obj:
    _n = "?"

    def __repr__(self):
        return f"<{self._n}>"


class Trk(Obj):
    def __init__(self, n, q):
        self._n, self.q = n, q

    def ptS(self, k=5):
        "same name as Jet.ptS, another default"
        return self.q * 2 + k * 17


class Jet(Obj):
    def __init__(self, n, pt, eta, tr):
        self._n, self.pt, self.eta, self.tr = n, pt, eta, Seq(tr)

    def ptS(self, k=2):
        return self.pt * 3 + k * 7

    def Trs(self, w=1):
        return self.tr


class Ev(Obj):
    def __init__(self, n, a, b, jets, trks):
        self._n, self.a, self.b, self.jets, self.trks = n, a, b, Seq(jets), Seq(trks)

    def met(self, s, t=1):
        return self.a * 5 + s * 11 + t * 13

    def Jets(self, kind="def"):
        return self.jets


def _mkdict(keys, vals):
    return AttrDict(zip(keys, vals))


def _seq(s):
    return s if isinstance(s, Seq) else Seq(s)


def _first(s):
    return _seq(s).First()


BASE_ENV = {
    "Select": lambda s, f: _seq(s).Select(f),
    "Where": lambda s, f: _seq(s).Where(f),
    "SelectMany": lambda s, f: _seq(s).SelectMany(f),
    "First": _first,
    "Count": lambda s: _seq(s).Count(),
    "len": len,
    "abs": abs,
    "Aggregate": lambda s, init, f: functools.reduce(f, s, init),
    "MetaData": lambda s, d: s,
    "kwfn": lambda x, ref=0: x + 2 * ref,  # an ordinary (non-operator) function taking a keyword argument
    "__mkdict": _mkdict,
    "__attrdict": AttrDict,
    "ResultTTree": lambda s, cols, tree, fname: ("ttree", list(s), cols, tree, fname),
    "ResultParquet": lambda s, cols, fname: ("parquet", list(s), cols, fname),
    "ResultPandasDF": lambda s, cols: ("pandas", list(s), cols),
    "ResultAwkwardArray": lambda s, cols: ("awkward", list(s), cols),
    "True": True,
}


class _Prep(ast.NodeTransformer):
    def visit_Dict(self, node):
        self.generic_visit(node)
        if any(k is None for k in node.keys):
            # a literal with ** spreads: AttrDict({...the literal as written...})
            return ast.Call(ast.Name("__attrdict", ast.Load()), [node], [])
        return ast.Call(
            ast.Name("__mkdict", ast.Load()),
            [ast.List(list(node.keys), ast.Load()), ast.List(list(node.values), ast.Load())],
            [],
        )


_CTX_NODES = (ast.Name, ast.Attribute, ast.Subscript, ast.Tuple, ast.List, ast.Starred)


def fix_ctx(a):
    "Give every node that lacks a ctx a Load ctx (so a C18 defect cannot contaminate C02)."
    n_fixed = 0
    for n in ast.walk(a):
        if isinstance(n, _CTX_NODES) and not hasattr(n, "ctx"):
            n.ctx = ast.Load()
            n_fixed += 1
    return a


def compile_query(q, root="ds", extra_env=None, repair=True):
    """Compile query AST q to a function dataset -> value."""
    q = copy.deepcopy(q)
    if repair:
        fix_ctx(q)
    q = _Prep().visit(q)
    lam = ast.Lambda(
        args=ast.arguments(posonlyargs=[], args=[ast.arg(arg=root)], kwonlyargs=[], kw_defaults=[],
                           defaults=[]),
        body=q,
    )
    code = compile(ast.fix_missing_locations(ast.Expression(lam)), "<query>", "eval")
    env = dict(BASE_ENV)
    if extra_env:
        env.update(extra_env)
    fn = eval(code, env)
    if root != "ds":
        return fn

    def run(data):
        env["EventDataset"] = lambda *a: data
        return fn(data)

    return run


def norm(v):
    "normal form of a value for comparison"
    if isinstance(v, Obj):
        return v._n
    if isinstance(v, dict):
        return {"__d": {k: norm(x) for k, x in v.items()}}
    if isinstance(v, tuple) and hasattr(v, "_fields"):
        return {"__d": {k: norm(x) for k, x in zip(v._fields, v)}}
    if isinstance(v, tuple):
        return tuple(norm(x) for x in v)
    if isinstance(v, (list, Seq)) or hasattr(v, "gi_frame"):
        return [norm(x) for x in v]
    if isinstance(v, bool):
        return ("bool", v)
    if hasattr(v, "__dataclass_fields__"):
        return {"__d": {k: norm(getattr(v, k)) for k in v.__dataclass_fields__}}
    return v


def evaluate(fn, data):
    "returns ('ok', normal form) or ('err', exception type name)"
    try:
        return ("ok", norm(fn(data)))
    except RecursionError:
        raise
    except Exception as e:
        return ("err", type(e).__name__)


# ----------------------------------------------------------------------- free names
def _walrus_targets(body):
    "names bound by := in a lambda body (not inside nested lambdas): local to that lambda"
    out, todo = [], [body]
    while todo:
        n = todo.pop()
        if isinstance(n, ast.Lambda):
            continue
        if isinstance(n, ast.NamedExpr) and isinstance(n.target, ast.Name):
            out.append(n.target.id)
        todo.extend(ast.iter_child_nodes(n))
    return out


def free_names(node, bound=frozenset()):
    """Free variable names of an expression AST (lambda parameters and comprehension targets
    bind).  Independent scope resolver used by C02/C05/C18."""
    out = set()

    def walk(n, bound):
        if isinstance(n, ast.Name):
            if n.id not in bound:
                out.add(n.id)
        elif isinstance(n, ast.Lambda):
            a = n.args
            for d in list(a.defaults) + [d for d in a.kw_defaults if d is not None]:
                walk(d, bound)
            names = [x.arg for x in a.posonlyargs + a.args + a.kwonlyargs]
            if a.vararg:
                names.append(a.vararg.arg)
            if a.kwarg:
                names.append(a.kwarg.arg)
            names += _walrus_targets(n.body)
            walk(n.body, bound | set(names))
        elif isinstance(n, (ast.ListComp, ast.GeneratorExp, ast.SetComp, ast.DictComp)):
            b = set(bound)
            for g in n.generators:
                walk(g.iter, frozenset(b))
                for t in ast.walk(g.target):
                    if isinstance(t, ast.Name):
                        b.add(t.id)
                for i in g.ifs:
                    walk(i, frozenset(b))
            if isinstance(n, ast.DictComp):
                walk(n.key, frozenset(b))
                walk(n.value, frozenset(b))
            else:
                walk(n.elt, frozenset(b))
        elif isinstance(n, ast.keyword):
            walk(n.value, bound)
        elif isinstance(n, ast.AST):
            for c in ast.iter_child_nodes(n):
                walk(c, bound)

    walk(node, frozenset(bound))
    return out


# ----------------------------------------------------------------------- datasets
_JET_SHAPES = [()] + [(i,) for i in range(3)] + [(i, j) for i in range(3) for j in range(3)]


def _label(mode, counter):
    i = counter[0]
    counter[0] += 1
    if mode == 0:  # all distinct, increasing
        return i + 1
    if mode == 1:  # all equal to the grammar's comparison constant
        return 1
    return (0, 2, 1)[i % 3]  # alternating around the constant


def build_dataset(shape, mode):
    """shape: tuple of events, each a tuple of track counts per jet.  Fresh objects every call."""
    c = [0]
    evs = []
    for ei, jets in enumerate(shape):
        jl = []
        for ji, ntr in enumerate(jets):
            trs = [Trk(f"E{ei}J{ji}T{ti}", _label(mode, c)) for ti in range(ntr)]
            jl.append(Jet(f"E{ei}J{ji}", _label(mode, c), _label(mode, c), trs))
        ntrk = 2 - len(jets)
        trks = [Trk(f"E{ei}K{ti}", _label(mode, c)) for ti in range(ntrk)]
        evs.append(Ev(f"E{ei}", _label(mode, c), _label(mode, c), jl, trks))
    return Seq(evs)


def all_shapes():
    out = [()]
    out += [(e,) for e in _JET_SHAPES]
    out += [(e1, e2) for e1 in _JET_SHAPES for e2 in _JET_SHAPES]
    return out


QUICK_SHAPES = [
    (), ((),), ((0,),), ((1,),), ((2,),), ((0, 2),), ((2, 1),), ((1, 1),),
    ((), (1,)), ((1,), ()), ((2, 0), (1,)), ((1, 2), (2, 2)), ((0,), (0, 1)), ((2,), (2,)),
]


def dataset_specs(tier_full):
    if tier_full:
        return [(s, m) for s in all_shapes() for m in (0, 1, 2)]
    return [(s, i % 3) for i, s in enumerate(QUICK_SHAPES)] + [(((2, 1), (1, 2)), 2), (((1, 2), (2, 1)), 1)]


_DS_CACHE = {}


def datasets(tier_full):
    r = _DS_CACHE.get(tier_full)
    if r is None:
        r = _DS_CACHE[tier_full] = [build_dataset(s, m) for s, m in dataset_specs(tier_full)]
    return r
