"""World for the history explorations of C11 / C12 / C16: real datasets and streams, an operation
menu with tiny argument domains, and the reference models (snapshots, executor log, metadata dict)."""
import ast
import copy
from typing import Iterable

from . import explore

# Call sites with the lambda written inline (one lambda per line), as source recovery requires.
def _sel_any(s):
    return s.Select(
        lambda e: e.x
    )


def _sel_ev(s):
    return s.Select(
        lambda e: e.met()
    )


def _sel_same(s):
    # ONE call site (one code object) used for streams of every kind: untyped, and typed with different event models
    return s.Select(
        lambda e: e.jets().Select(lambda j: j.pt())
    )


def _where_any(s):
    return s.Where(
        lambda e: e.x > 1
    )


def make_typed_model(keep=None):
    """keep: called with every stream a callback creates - the callback's author holds on to it (a stream like any other:
    it must stay what it was when it was made)"""
    from func_adl import func_adl_callback

    def cb_event(s, a):
        s2 = s.MetaData({"ev": 1})
        if keep:
            keep(s2)
        return s2, a

    def cb_empty(s, a):
        s2 = s.MetaData({})
        if keep:
            keep(s2)
        return s2, a

    class Jet:
        @func_adl_callback(cb_empty)
        def pt(self, k: int = 2) -> float: ...

        def eta(self) -> float: ...

    @func_adl_callback(cb_event)
    class Event:
        def met(self, scale: float = 1.0) -> float: ...

        def jets(self, kind: str = "def") -> Iterable[Jet]: ...

    return Event, Jet


def make_typed_model2(keep=None):
    "no class-level callback on the event: the first callback to fire is the one inside the nested lambda"
    from func_adl import func_adl_callback

    def cb_md(s, a):
        s2 = s.MetaData({"jetcb": 1})
        if keep:
            keep(s2)
        return s2, a

    class Jet:
        @func_adl_callback(cb_md)
        def pt(self, k: int = 2) -> float: ...

    class Event:
        def met(self, scale: float = 1.0) -> float: ...

        def jets(self, kind: str = "def") -> Iterable[Jet]: ...

    return Event, Jet


# what a failing executor raises (by call number): includes the types a wrapper might mistake for its own
EXC = (KeyError, TypeError, ValueError, AttributeError, StopIteration if False else RuntimeError)

WHERE_SAME = "lambda e: e.jets().Select(lambda j: j.pt()).Count() > 1"

BODIES = {
    # item kind -> {op: lambda source}
    "any": {"SelectSame": "lambda e: e.jets().Select(lambda j: j.pt())", "Select": "lambda e: e.x", "Where": "lambda e: e.x > 1", "SelectMany": "lambda e: e.ys",
            "Select2": "lambda e: (e.x, e.y)"},
    "Event": {"SelectSame": "lambda e: e.jets().Select(lambda j: j.pt())", "Select": "lambda e: e.met()", "Where": "lambda e: e.met(2.0) > 1", "SelectMany": "lambda e: e.jets()",
              "Select2": "lambda e: e.jets().Select(lambda j: j.pt())"},
    "Jet": {"SelectSame": "lambda e: e.jets().Select(lambda j: j.pt())", "Select": "lambda j: j.pt()", "Where": "lambda j: j.pt(k=3) > 1", "SelectMany": "lambda j: j.ys",
            "Select2": "lambda j: (j.pt(), j.eta())"},
    "num": {"SelectSame": "lambda e: e.jets().Select(lambda j: j.pt())", "Select": "lambda v: v + 1", "Where": "lambda v: v > 1", "SelectMany": "lambda v: v.ys",
            "Select2": "lambda v: (v, v)"},
}


class World:
    def __init__(self, n_untyped=1, n_typed=1, n_typed2=0, n_rootless=0):
        from func_adl import EventDataset

        world = self
        self.log = []
        self.log_self = []  # the object each executor call ran on
        self.kept = []  # streams made inside callbacks and held on to by their author: (stream, observation when made)
        self.Event, self.Jet = make_typed_model(lambda s2: self.kept.append((s2, self.observe(s2))))

        class DS(EventDataset):
            def __init__(self, idx, item_type=None, fail=False):
                if item_type is None:
                    super().__init__()
                else:
                    super().__init__(item_type)
                self.idx = idx
                self.fail = fail

            async def execute_result_async(self, a, title=None):
                world.log.append((self.idx, a, title))
                world.log_self.append(self)
                if self.fail:
                    raise EXC[len(world.log) % len(EXC)](("boom", self.idx, len(world.log)))
                return ("tok", self.idx, len(world.log))

        self.datasets = []
        for i in range(n_untyped):
            self.datasets.append(DS(len(self.datasets)))
        for i in range(n_typed):
            self.datasets.append(DS(len(self.datasets), self.Event))
        self.Event2, self.Jet2 = make_typed_model2(lambda s2: self.kept.append((s2, self.observe(s2))))
        for i in range(n_typed2):
            self.datasets.append(DS(len(self.datasets), self.Event2))
        # streams that are not rooted in a dataset object (built on a name): one untyped, the others typed
        from func_adl import ObjectStream

        self.rootless = [False] * len(self.datasets)
        for i in range(n_rootless):
            o = ObjectStream(ast.Name(f"xs{i}", ast.Load())) if i == 0 else \
                ObjectStream[self.Event](ast.Name(f"xs{i}", ast.Load()), self.Event)
            o.idx = len(self.datasets)
            self.datasets.append(o)
            self.rootless.append(True)
        self.streams = list(self.datasets)
        self.mkind = ["any"] * n_untyped + ["Event"] * (n_typed + n_typed2) + \
                     [("any" if i == 0 else "Event") for i in range(n_rootless)]
        self.root = list(range(len(self.datasets)))
        self.parent = [None] * len(self.datasets)
        self.terminal = [False] * len(self.datasets)
        self.qmd = [dict() for _ in self.datasets]  # C16 reference model
        self.nq = [0] * len(self.datasets)  # QMetaData-free twin (C16): list of derivation ops
        self.deriv = [("root", i) for i in range(len(self.datasets))]
        self.snap = [self.observe(s) for s in self.streams]
        self.shared = {k: ast.parse(v["Select"]).body[0].value for k, v in BODIES.items()}
        self.shared_same = ast.parse(BODIES["any"]["SelectSame"]).body[0].value
        self.shared_module = ast.parse(BODIES["any"]["SelectSame"])  # the Module-wrapped form ast.parse returns
        self.shared_filter = ast.parse(WHERE_SAME).body[0].value  # ONE ast.Lambda used as a Where filter everywhere
        self.last = None  # details of the last execution
        self.track_twin = False
        self.twin = list(self.datasets)  # C16: the same derivations without any QMetaData

    # ---------------------------------------------------------------- observation
    def ds_index(self, v):
        for d in self.datasets:
            if v is d or getattr(v, "__self__", None) is d:
                return f"ds{d.idx}"
        return "other"

    def observe(self, s):
        return (explore.plain_dump(s.query_ast, self.ds_index), repr(s.item_type))

    MK = {("Event", "Select"): "num", ("Event", "Where"): "Event", ("Event", "SelectMany"): "Jet",
          ("Jet", "Select"): "num", ("Jet", "Where"): "Jet", ("num", "Select"): "num", ("num", "Where"): "num"}

    def kind(self, i):
        "the item kind the annotations imply for stream i (the model's knowledge, not the stream's claim)"
        return self.mkind[i]

    def kind_of_stream(self, i):
        t = self.streams[i].item_type
        if t is self.Event:
            return "Event"
        if t is self.Jet:
            return "Jet"
        if t in (float, int):
            return "num"
        return "any"

    def key(self):
        return explore.heap_key([s.query_ast for s in self.streams], [s.item_type for s in self.streams],
                                self.ds_index) + repr(self.terminal)

    def add(self, s, parent, deriv, terminal=False):
        self.streams.append(s)
        self.root.append(self.root[parent])
        self.parent.append(parent)
        self.terminal.append(terminal)
        self.qmd.append(dict(self.qmd[parent]))
        self.deriv.append(deriv)
        op = deriv[0]
        pk = self.mkind[parent]
        if op in ("MetaData", "QMetaData"):
            self.mkind.append(pk)
        elif op == "Where":
            self.mkind.append(pk)
        else:
            self.mkind.append(self.MK.get((pk, op), "any"))
        self.snap.append(self.observe(s))

    # ---------------------------------------------------------------- operations
    def derive_fn(self, name, k, op):
        "the derivation as a function of the source stream (applied to the stream and to its twin)"
        if name in ("Select", "Where", "SelectMany", "Select2", "SelectSame"):
            meth = "Select" if name in ("Select2", "SelectSame") else name
            return (lambda s: getattr(s, meth)(BODIES[k][name])), (name, "str"), False
        if name == "SelectAst":
            return (lambda s: s.Select(self.shared[k])), ("Select", "ast"), False
        if name == "SelectAstSame":
            # ONE user-held ast.Lambda object handed to streams of every kind
            return (lambda s: s.Select(self.shared_same)), ("Select", "ast-same"), False
        if name == "WhereAstSame":
            return (lambda s: s.Where(self.shared_filter)), ("Where", "ast-same"), False
        if name == "SelectManyAstSame":
            return (lambda s: s.SelectMany(self.shared_same)), ("SelectMany", "ast-same"), False
        if name == "SelectMod":
            # ONE user-held ast.Module (what ast.parse returns) handed to streams of every kind
            return (lambda s: s.Select(self.shared_module)), ("Select", "ast-module-same"), False
        if name == "SelectCall":
            return (lambda s: _sel_ev(s) if k == "Event" else _sel_any(s)), ("Select", "call"), False
        if name == "WhereCall":
            return _where_any, ("Where", "call"), False
        if name == "SelectCallSame":
            return _sel_same, ("Select", "call-same-site"), False
        if name == "MD0":
            return (lambda s: s.MetaData({})), ("MetaData", {}), False
        if name == "MD1":
            return (lambda s: s.MetaData({"k": 1})), ("MetaData", {"k": 1}), False
        if name == "Awk":
            return (lambda s: s.AsAwkwardArray(["c"])), ("AsAwkwardArray",), True
        if name == "TTree":
            return (lambda s: s.AsROOTTTree("f.root", "t", ["c"])), ("AsROOTTTree",), True
        if name == "Pandas":
            return (lambda s: s.AsPandasDF("c")), ("AsPandasDF",), True
        if name == "Parquet":
            return (lambda s: s.AsParquetFiles("f.pq", ["c"])), ("AsParquetFiles",), True
        return None

    def apply(self, op):
        """op = (name, target[, extra]).  Returns None; raises only harness errors."""
        name, i = op[0], op[1]
        s = self.streams[i]
        k = self.kind(i)
        self.last = None
        d = self.derive_fn(name, k, op)
        if d is not None:
            fn, deriv, terminal = d
            self.add(fn(s), i, deriv, terminal)
            if self.track_twin:
                self.twin.append(fn(self.twin[i]))
        elif name == "QMD":
            d = dict(op[2])
            self.add(s.QMetaData(d), i, ("QMetaData", d))
            self.qmd[-1].update(d)
            if self.track_twin:
                self.twin.append(self.twin[i])
        elif name == "QMDheld":
            # ONE dict object that the caller keeps (and re-uses for several calls / edits later, see MutHeld)
            if not hasattr(self, "held"):
                self.held = {"a": 1}
            d = dict(self.held)
            self.add(s.QMetaData(self.held), i, ("QMetaData", d))
            self.qmd[-1].update(d)
            if self.track_twin:
                self.twin.append(self.twin[i])
        elif name == "MutHeld":
            # the caller edits its own dict after the call(s): no stream may notice
            if not hasattr(self, "held"):
                self.held = {"a": 1}
            self.held["a"] = self.held.get("a", 1) + 10
            self.held["b"] = "late"
        elif name in ("Value", "ValueT", "ValueOv", "ValueAsync", "ValueMut", "ValueOvFalsy", "ValueOvAw"):
            before = self.observe(s)
            expected_ast = dump_without_empty_metadata(s.query_ast, self.ds_index)
            n0 = len(self.log)
            title = "t" if name == "ValueT" else None
            ov_log = []
            override = None
            if name == "ValueOv":
                async def override(a, title=None):
                    ov_log.append((a, title))
                    return ("ov", len(ov_log))
            ov_token = ("ov", 1)
            if name == "ValueOvFalsy":
                override = FalsyExecutor(ov_log)  # a callable that is false in a boolean context (an empty recorder)
            if name == "ValueOvAw":
                ov_token = Handle()

                async def override(a, title=None, ov_token=ov_token):
                    ov_log.append((a, title))
                    return ov_token  # the result is itself awaitable (a job handle): it is the result, not a step
            if name == "ValueMut":
                async def override(a, title=None):
                    # a back end that normalises the tree it is handed IN PLACE (as NodeTransformers do)
                    scribble(a)
                    return ("mut", 0)
            try:
                if name == "ValueAsync":
                    co = s.value_async(title=title)
                    try:
                        co.send(None)
                        co.close()
                        ret = ("pending",)
                    except StopIteration as e:
                        ret = ("ret", e.value)
                elif override is not None:
                    ret = ("ret", s.value(executor=override, title=title))
                else:
                    ret = ("ret", s.value(title=title))
            except EXC as e:
                ret = ("raise", type(e).__name__, e.args[0])
            self.last = dict(target=i, before=before, expected_ast=expected_ast, n0=n0, title=title, ret=ret,
                             override=name in ("ValueOv", "ValueOvFalsy", "ValueOvAw"), ov_log=ov_log, ov_token=ov_token)
        else:
            raise ValueError(name)


class FalsyExecutor:
    def __init__(self, log):
        self.log = log

    def __len__(self):
        return 0

    async def __call__(self, a, title=None):
        self.log.append((a, title))
        return ("ov", len(self.log))


class Handle:
    "an awaitable result object"

    def __await__(self):
        return iter(())


def scribble(a):
    """edit every node of the tree in place: names and attribute names renamed, constants replaced, every
    argument / keyword list emptied.  Whatever the tree shares with a stream's own AST shows up there."""
    nodes = list(ast.walk(a))
    for n in nodes:
        if isinstance(n, ast.Name):
            n.id = "SCRIBBLED"
        elif isinstance(n, ast.Attribute):
            n.attr = "scribbled"
        elif isinstance(n, ast.Constant):
            n.value = "scribbled"
        elif isinstance(n, ast.arg):
            n.arg = "scribbled"
        elif isinstance(n, ast.keyword):
            n.arg = "scribbled"
    for n in nodes:
        if isinstance(n, ast.Call):
            del n.args[:]
            del n.keywords[:]
        elif isinstance(n, (ast.Tuple, ast.List)):
            del n.elts[:]


def is_empty_md(n):
    if isinstance(n, ast.Call) and isinstance(n.func, ast.Name) and n.func.id == "MetaData" and len(n.args) == 2:
        try:
            d = ast.literal_eval(n.args[1])
        except Exception:
            return False
        return isinstance(d, dict) and len(d) == 0
    return False


def dump_without_empty_metadata(n, ds_index, strip=True):
    """Independent reference: the field-only dump of the AST with exactly the empty MetaData
    wrappers removed (computed on a serialisation, never touching the AST).  strip=False gives
    the plain field-only dump."""
    if isinstance(n, ast.AST):
        if strip and is_empty_md(n):
            return dump_without_empty_metadata(n.args[0], ds_index, strip)
        parts = [type(n).__name__, "("]
        for f in n._fields:
            if hasattr(n, f):
                parts.append(f"{f}={dump_without_empty_metadata(getattr(n, f), ds_index, strip)},")
        parts.append(")")
        return "".join(parts)
    if isinstance(n, list):
        return "[" + ",".join(dump_without_empty_metadata(x, ds_index, strip) for x in n) + "]"
    return f"{type(n).__name__}:{n!r}"


# ----------------------------------------------------------------------------- stand-alone replay text
_CODE_HEADER = '''# stand-alone replay of an operation history found by fadlmc (no explorer needed)
import ast
from typing import Iterable
from func_adl import EventDataset, func_adl_callback

LOG = []
class DS(EventDataset):
    def __init__(self, idx, item_type=None):
        super().__init__() if item_type is None else super().__init__(item_type)
        self.idx = idx
    async def execute_result_async(self, a, title=None):
        LOG.append((self.idx, ast.dump(a), title))
        return ("tok", self.idx, len(LOG))

class Jet:
    @func_adl_callback(lambda s, a: (s.MetaData({}), a))
    def pt(self, k: int = 2) -> float: ...
    def eta(self) -> float: ...
@func_adl_callback(lambda s, a: (s.MetaData({"ev": 1}), a))
class Event:
    def met(self, scale: float = 1.0) -> float: ...
    def jets(self, kind: str = "def") -> Iterable[Jet]: ...
class Jet2:
    @func_adl_callback(lambda s, a: (s.MetaData({"jetcb": 1}), a))
    def pt(self, k: int = 2) -> float: ...
class Event2:
    def met(self, scale: float = 1.0) -> float: ...
    def jets(self, kind: str = "def") -> Iterable[Jet2]: ...

def snapshot(s):
    return ast.dump(s.query_ast), repr(s.item_type)
'''


def history_code(roots, hist):
    """Python text that replays `hist` on plain func_adl objects and prints every stream before and after each
    step (roots = (n_untyped, n_typed, n_typed2))."""
    w = World(*roots)
    lines = [_CODE_HEADER]
    types = [None] * roots[0] + ["Event"] * roots[1] + ["Event2"] * (roots[2] if len(roots) > 2 else 0)
    lines.append("streams = [" + ", ".join(f"DS({i}, {t})" if t else f"DS({i})" for i, t in enumerate(types)) + "]")
    for i in range(roots[3] if len(roots) > 3 else 0):
        lines.append("from func_adl import ObjectStream")
        lines.append(f"streams.append(ObjectStream(ast.Name('xs{i}', ast.Load())))" if i == 0 else
                     f"streams.append(ObjectStream[Event](ast.Name('xs{i}', ast.Load()), Event))")
    lines.append("seen = [snapshot(s) for s in streams]")
    for op in hist:
        name, i = op[0], op[1]
        k = w.kind(i)
        if name in ("Select", "Where", "SelectMany", "Select2", "SelectSame"):
            meth = "Select" if name in ("Select2", "SelectSame") else name
            code = f"streams.append(streams[{i}].{meth}({BODIES[k][name]!r}))"
        elif name == "SelectAstSame":
            code = f"SAME = globals().get('SAME') or ast.parse({BODIES['any']['SelectSame']!r}).body[0].value\nstreams.append(streams[{i}].Select(SAME))"
        elif name == "WhereAstSame":
            code = f"FILT = globals().get('FILT') or ast.parse({WHERE_SAME!r}).body[0].value\nstreams.append(streams[{i}].Where(FILT))"
        elif name == "SelectManyAstSame":
            code = f"SAME = globals().get('SAME') or ast.parse({BODIES['any']['SelectSame']!r}).body[0].value\nstreams.append(streams[{i}].SelectMany(SAME))"
        elif name == "SelectMod":
            code = f"MOD = globals().get('MOD') or ast.parse({BODIES['any']['SelectSame']!r})\nstreams.append(streams[{i}].Select(MOD))"
        elif name == "ValueMut":
            code = ("async def scribbler(a, title=None):\n    for n in list(ast.walk(a)):\n        if isinstance(n, ast.Name): n.id = 'SCRIBBLED'\n"
                    "        if isinstance(n, ast.Attribute): n.attr = 'scribbled'\n        if isinstance(n, ast.Constant): n.value = 'scribbled'\n"
                    "        if isinstance(n, ast.arg): n.arg = 'scribbled'\n        if isinstance(n, ast.Call): del n.args[:]; del n.keywords[:]\n"
                    f"    return 'mut'\nprint('value ->', streams[{i}].value(executor=scribbler))")
        elif name == "SelectAst":
            code = f"streams.append(streams[{i}].Select(ast.parse({BODIES[k]['Select']!r}).body[0].value))  # the harness re-uses ONE ast object per kind"
        elif name == "SelectCallSame":
            code = ("def sel_same(s):\n    return s.Select(\n        lambda e: e.jets().Select(lambda j: j.pt())\n    )\n"
                    f"streams.append(sel_same(streams[{i}]))  # needs to live in a file: source recovery reads it")
        elif name in ("SelectCall", "WhereCall"):
            code = f"streams.append(streams[{i}].{'Where' if name == 'WhereCall' else 'Select'}(\n    lambda e: e.x{' > 1' if name == 'WhereCall' else ''}\n))"
        elif name == "MD0":
            code = f"streams.append(streams[{i}].MetaData({{}}))"
        elif name == "MD1":
            code = f"streams.append(streams[{i}].MetaData({{'k': 1}}))"
        elif name == "QMD":
            code = f"streams.append(streams[{i}].QMetaData({dict(op[2])!r}))"
        elif name == "QMDheld":
            code = f"HELD = globals().get('HELD') or {{'a': 1}}\nstreams.append(streams[{i}].QMetaData(HELD))"
        elif name == "MutHeld":
            code = "HELD = globals().get('HELD') or {'a': 1}\nHELD['a'] = HELD.get('a', 1) + 10; HELD['b'] = 'late'"
        elif name == "Awk":
            code = f"streams.append(streams[{i}].AsAwkwardArray(['c']))"
        elif name == "TTree":
            code = f"streams.append(streams[{i}].AsROOTTTree('f.root', 't', ['c']))"
        elif name == "Pandas":
            code = f"streams.append(streams[{i}].AsPandasDF('c'))"
        elif name == "Parquet":
            code = f"streams.append(streams[{i}].AsParquetFiles('f.pq', ['c']))"
        elif name in ("Value", "ValueAsync"):
            code = f"print('value ->', streams[{i}].value())"
        elif name == "ValueT":
            code = f"print('value ->', streams[{i}].value(title='t'))"
        elif name == "ValueOvFalsy":
            code = ("class Rec:\n    def __len__(self): return 0\n    async def __call__(self, a, title=None): return ('ov', ast.dump(a))\n"
                    f"print('value ->', streams[{i}].value(executor=Rec()))")
        elif name == "ValueOvAw":
            code = ("class Handle:\n    def __await__(self): return iter(())\nH = Handle()\nasync def override(a, title=None):\n    return H\n"
                    f"assert streams[{i}].value(executor=override) is H")
        elif name == "ValueOv":
            code = f"async def override(a, title=None):\n    return ('ov', ast.dump(a))\nprint('value ->', streams[{i}].value(executor=override))"
        else:
            code = f"# {op!r}"
        lines.append(code)
        lines.append("seen += [snapshot(s) for s in streams[len(seen):]]")
        lines.append(f"for j, s in enumerate(streams[:len(seen)]):\n    assert snapshot(s) == seen[j], (\"stream %d changed after {op!r}\" % j)")
        try:
            w.apply(op)
        except Exception:
            break
    lines.append("print('executor log:', LOG)")
    return "\n".join(lines) + "\n"
