"""Shared oracle: does a transformed query AST compute what the original computes?"""
import ast

from . import refsem

OPERATOR_NAMES = {
    "Select", "Where", "SelectMany", "First", "Count", "len", "abs", "Aggregate", "MetaData",
    "EventDataset", "ResultTTree", "ResultParquet", "ResultPandasDF", "ResultAwkwardArray",
    "Min", "Max", "Sum", "kwfn",
}


def parse_expr(src):
    return ast.parse(src, mode="eval").body


def compare(q_orig, q_new, full_data=False, extra_env=None, allowed_free=None, datasets=None):
    """Evaluate both on every dataset.  Returns (viol_kind or None, message, n_evals, outcomes)
    outcomes: set of strings describing what was observed (for the vacuity statistics)."""
    outcomes = set()
    try:
        f0 = refsem.compile_query(q_orig, extra_env=extra_env)
    except Exception as e:  # the harness generated something Python rejects
        raise RuntimeError(f"original does not compile: {e}: {ast.dump(q_orig)[:300]}")
    try:
        f1 = refsem.compile_query(q_new, extra_env=extra_env)
    except Exception as e:
        return (f"uncompilable:{type(e).__name__}", str(e)[:200], 0, {"uncompilable"})
    # static scope check: no name may be (or become) unbound
    fr0 = refsem.free_names(q_orig)
    fr1 = refsem.free_names(q_new)
    stray = fr0 - OPERATOR_NAMES - {"ds"} - (allowed_free or set())
    if stray:
        raise RuntimeError(f"harness generated an open term (free {sorted(stray)}): {ast.unparse(q_orig)[:200]}")
    extra = fr1 - fr0 - OPERATOR_NAMES - (allowed_free or set())
    if extra:
        return ("unbound-name", f"free names introduced: {sorted(extra)}", 0, {"unbound"})
    n = 0
    n_ok = 0
    dss = datasets if datasets is not None else refsem.datasets(full_data)
    for i, data in enumerate(dss):
        r0 = refsem.evaluate(f0, data)
        n += 1
        if r0[0] == "err":
            outcomes.add("orig-error:" + r0[1])
            continue
        r1 = refsem.evaluate(f1, data)
        n += 1
        n_ok += 1
        if r1[0] == "err":
            kind = "unbound-name" if r1[1] == "NameError" else f"error-on-result:{r1[1]}"
            return (kind, f"dataset#{i}: original -> {str(r0[1])[:120]}, transformed raised {r1[1]}", n,
                    outcomes | {"mismatch"})
        if r0[1] != r1[1]:
            return ("value-mismatch",
                    f"dataset#{i}: original -> {str(r0[1])[:150]} ; transformed -> {str(r1[1])[:150]}", n,
                    outcomes | {"mismatch"})
    outcomes.add("equal" if n_ok else "vacuous")
    return (None, "", n, outcomes)


def op_pairs(q):
    "informational: which operator-pair shapes occur in the input"
    tags = {}
    for n in ast.walk(q):
        if isinstance(n, ast.Call) and isinstance(n.func, ast.Name) and n.args:
            a0 = n.args[0]
            if isinstance(a0, ast.Call) and isinstance(a0.func, ast.Name):
                if n.func.id in ("Select", "Where", "SelectMany") and a0.func.id in ("Select", "Where", "SelectMany"):
                    k = f"pair:{n.func.id}_of_{a0.func.id}"
                    tags[k] = tags.get(k, 0) + 1
        if isinstance(n, ast.Call) and isinstance(n.func, ast.Lambda):
            k = "called-lambda-kw" if n.keywords else "called-lambda"
            tags[k] = tags.get(k, 0) + 1
        if isinstance(n, ast.Subscript) and isinstance(n.value, (ast.Tuple, ast.List, ast.Dict)):
            tags["literal-projection"] = tags.get("literal-projection", 0) + 1
        if isinstance(n, (ast.Attribute, ast.Subscript)) and isinstance(n.value, ast.Call) and \
                isinstance(n.value.func, ast.Name) and n.value.func.id == "First":
            tags["first-pushthrough"] = tags.get("first-pushthrough", 0) + 1
    return tags
