"""E3 - class models for the type-following checks (C08, C09): source text that is exec'd (so
inspect.signature / get_type_hints see ordinary classes) plus a hand-written, monomorphised
description of what the annotations imply (the independent oracle)."""
from typing import Any, Iterable

# my type representation: 'float' 'int' 'bool' 'str' 'Any' ('It', T) ('Obj', name) ('Dic', ((k, T), ...))
# a description maps  object-type-name -> [(method, result type)]  and  iterable-type-name -> element type

HEADER = "from __future__ import annotations\nfrom dataclasses import dataclass\nfrom typing import *\n" \
         "from func_adl import ObjectStream, register_func_adl_os_collection\n"

MODELS = {}

MODELS["plain"] = (HEADER + '''
class Trk:
    def q(self) -> int: ...
class Jet:
    def pt(self) -> float: ...
    def ntrk(self) -> int: ...
    def trks(self) -> Iterable[Trk]: ...
    def good(self) -> bool: ...
class Ev:
    def a(self) -> float: ...
    def n(self) -> int: ...
    def flag(self) -> bool: ...
    def name(self) -> str: ...
    def untyped(self): ...
    def jets(self) -> Iterable[Jet]: ...
    def lead(self) -> Jet: ...
''', {
    "root": "Ev",
    "Ev": [("a", "float"), ("n", "int"), ("flag", "bool"), ("name", "str"), ("untyped", "Any"),
           ("jets", ("It", ("Obj", "Jet"))), ("lead", ("Obj", "Jet"))],
    "Jet": [("pt", "float"), ("ntrk", "int"), ("trks", ("It", ("Obj", "Trk"))), ("good", "bool")],
    "Trk": [("q", "int")],
})

# the same classes WITHOUT postponed annotations: forward references are written as quoted names, also inside generics
MODELS["fwdref"] = ("from typing import *\n" + '''
class Ev:
    def a(self) -> float: ...
    def n(self) -> int: ...
    def flag(self) -> bool: ...
    def name(self) -> str: ...
    def untyped(self): ...
    def jets(self) -> Iterable["Jet"]: ...
    def lead(self) -> "Jet": ...
class Jet:
    def pt(self) -> float: ...
    def ntrk(self) -> "int": ...
    def trks(self) -> "Iterable[Trk]": ...
    def good(self) -> bool: ...
class Trk:
    def q(self) -> int: ...
''', MODELS["plain"][1])

MODELS["inherit"] = (HEADER + '''
class TrkBase:
    def q(self) -> int: ...
class Trk(TrkBase):
    pass
class JetBase:
    def pt(self) -> float: ...
    def trks(self) -> Iterable[Trk]: ...
class Jet(JetBase):
    def ntrk(self) -> int: ...
    def good(self) -> bool: ...
class EvBase:
    def a(self) -> float: ...
    def jets(self) -> Iterable[Jet]: ...
class EvMid(EvBase):
    def n(self) -> int: ...
    def flag(self) -> bool: ...
class Ev(EvMid):
    def name(self) -> str: ...
    def untyped(self): ...
    def lead(self) -> Jet: ...
''', MODELS["plain"][1])

MODELS["generic"] = (HEADER + '''
T = TypeVar("T")
U = TypeVar("U")
class Trk:
    def q(self) -> int: ...
class Coll(Generic[T]):
    def first(self) -> T: ...
    def items(self) -> Iterable[T]: ...
    def size(self) -> int: ...
    def rows(self) -> Iterable[Iterable[T]]: ...
class Sub(Coll[U]):
    def second(self) -> U: ...
class Jet:
    def pt(self) -> float: ...
    def ntrk(self) -> int: ...
    def trks(self) -> Iterable[Trk]: ...
    def tcoll(self) -> Coll[Trk]: ...
    def good(self) -> bool: ...
class JetColl(Coll[Jet]):
    def leading(self) -> Jet: ...
class Holder(Generic[T]):
    def get(self) -> T: ...
class ListHolder(Holder[Iterable[U]]):
    def mid(self) -> U: ...
class TrkListHolder(ListHolder[Trk]):
    def own(self) -> int: ...
class Ev:
    def a(self) -> float: ...
    def n(self) -> int: ...
    def flag(self) -> bool: ...
    def jets(self) -> Iterable[Jet]: ...
    def coll(self) -> Coll[Jet]: ...
    def sub(self) -> Sub[Jet]: ...
    def jcoll(self) -> JetColl: ...
    def holder(self) -> TrkListHolder: ...
    def lholder(self) -> ListHolder[Jet]: ...
''', {
    "root": "Ev",
    "Ev": [("a", "float"), ("n", "int"), ("flag", "bool"), ("jets", ("It", ("Obj", "Jet"))),
           ("coll", ("Obj", "Coll[Jet]")), ("sub", ("Obj", "Sub[Jet]")), ("jcoll", ("Obj", "JetColl")),
           ("holder", ("Obj", "TrkListHolder")), ("lholder", ("Obj", "ListHolder[Jet]"))],
    "Jet": [("pt", "float"), ("ntrk", "int"), ("trks", ("It", ("Obj", "Trk"))), ("tcoll", ("Obj", "Coll[Trk]")),
            ("good", "bool")],
    "Trk": [("q", "int")],
    "Coll[Jet]": [("first", ("Obj", "Jet")), ("items", ("It", ("Obj", "Jet"))), ("size", "int"), ("rows", ("It", ("It", ("Obj", "Jet"))))],
    "Coll[Trk]": [("first", ("Obj", "Trk")), ("items", ("It", ("Obj", "Trk"))), ("size", "int"), ("rows", ("It", ("It", ("Obj", "Trk"))))],
    "Sub[Jet]": [("first", ("Obj", "Jet")), ("items", ("It", ("Obj", "Jet"))), ("size", "int"), ("rows", ("It", ("It", ("Obj", "Jet")))),
                 ("second", ("Obj", "Jet"))],
    "JetColl": [("first", ("Obj", "Jet")), ("items", ("It", ("Obj", "Jet"))), ("size", "int"), ("rows", ("It", ("It", ("Obj", "Jet")))),
                ("leading", ("Obj", "Jet"))],
    # TrkListHolder is a ListHolder[Trk], which is a Holder[Iterable[Trk]]
    "TrkListHolder": [("get", ("It", ("Obj", "Trk"))), ("mid", ("Obj", "Trk")), ("own", "int")],
    "ListHolder[Jet]": [("get", ("It", ("Obj", "Jet"))), ("mid", ("Obj", "Jet"))],
})

MODELS["generic2"] = (HEADER + '''
K = TypeVar("K")
V = TypeVar("V")
class Trk:
    def q(self) -> int: ...
class Jet:
    def pt(self) -> float: ...
    def ntrk(self) -> int: ...
    def trks(self) -> Iterable[Trk]: ...
    def good(self) -> bool: ...
class Pair(Generic[K, V]):
    def key(self) -> K: ...
    def val(self) -> V: ...
    def vals(self) -> Iterable[V]: ...
class Swapped(Pair[V, K], Generic[K, V]):
    def mine(self) -> K: ...
class OnlyV(Pair[int, V]):
    def extra(self) -> V: ...
class Ev:
    def a(self) -> float: ...
    def n(self) -> int: ...
    def flag(self) -> bool: ...
    def jets(self) -> Iterable[Jet]: ...
    def pair(self) -> Pair[Jet, Trk]: ...
    def sw(self) -> Swapped[Jet, Trk]: ...
    def onlyv(self) -> OnlyV[Jet]: ...
''', {
    "root": "Ev",
    "Ev": [("a", "float"), ("n", "int"), ("flag", "bool"), ("jets", ("It", ("Obj", "Jet"))),
           ("pair", ("Obj", "Pair[Jet, Trk]")), ("sw", ("Obj", "Swapped[Jet, Trk]")), ("onlyv", ("Obj", "OnlyV[Jet]"))],
    "Jet": [("pt", "float"), ("ntrk", "int"), ("trks", ("It", ("Obj", "Trk"))), ("good", "bool")],
    "Trk": [("q", "int")],
    "Pair[Jet, Trk]": [("key", ("Obj", "Jet")), ("val", ("Obj", "Trk")), ("vals", ("It", ("Obj", "Trk")))],
    # Swapped[K=Jet, V=Trk] is a Pair[V, K] = Pair[Trk, Jet]
    "Swapped[Jet, Trk]": [("key", ("Obj", "Trk")), ("val", ("Obj", "Jet")), ("vals", ("It", ("Obj", "Jet"))),
                          ("mine", ("Obj", "Jet"))],
    # OnlyV[V=Jet] is a Pair[int, Jet]
    "OnlyV[Jet]": [("key", "int"), ("val", ("Obj", "Jet")), ("vals", ("It", ("Obj", "Jet"))), ("extra", ("Obj", "Jet"))],
})

MODELS["iterable"] = (HEADER + '''
T = TypeVar("T")
class Trk:
    def q(self) -> int: ...
class Jet:
    def pt(self) -> float: ...
    def ntrk(self) -> int: ...
    def trks(self) -> TrkList: ...
    def good(self) -> bool: ...
class JetList(Iterable[Jet]):
    def leading(self) -> Jet: ...
    def njets(self) -> int: ...
class MyList(Iterable[T]):
    def head(self) -> T: ...
class TrkList(MyList[Trk]):
    pass
class Grouped(Iterable[Iterable[T]]):
    "the class parameter is not the element type: the elements are sequences of it"
    def ngroups(self) -> int: ...
class Ev:
    def a(self) -> float: ...
    def n(self) -> int: ...
    def flag(self) -> bool: ...
    def jets(self) -> JetList: ...
    def mjets(self) -> MyList[Jet]: ...
    def groups(self) -> Grouped[Trk]: ...
''', {
    "root": "Ev",
    "Ev": [("a", "float"), ("n", "int"), ("flag", "bool"), ("jets", ("ItObj", "JetList", ("Obj", "Jet"))),
           ("mjets", ("ItObj", "MyList[Jet]", ("Obj", "Jet"))),
           ("groups", ("ItObj", "Grouped[Trk]", ("It", ("Obj", "Trk"))))],
    "Jet": [("pt", "float"), ("ntrk", "int"), ("trks", ("ItObj", "TrkList", ("Obj", "Trk"))), ("good", "bool")],
    "Trk": [("q", "int")],
    "JetList": [("leading", ("Obj", "Jet")), ("njets", "int")],
    "MyList[Jet]": [("head", ("Obj", "Jet"))],
    "TrkList": [("head", ("Obj", "Trk"))],
    "Grouped[Trk]": [("ngroups", "int")],
})

MODELS["collection"] = (HEADER + '''
M = TypeVar("M")
@register_func_adl_os_collection
class MyColl(ObjectStream[M]):
    def __init__(self, a, item_type=Any):
        super().__init__(a, item_type)
    def Take(self, n: int = 5) -> ObjectStream[M]: ...
    def Size(self) -> int: ...
    def Lead(self) -> M: ...
class Trk:
    def q(self) -> int: ...
class Jet:
    def pt(self) -> float: ...
    def ntrk(self) -> int: ...
    def trks(self) -> Iterable[Trk]: ...
    def good(self) -> bool: ...
class Ev:
    def a(self) -> float: ...
    def n(self) -> int: ...
    def flag(self) -> bool: ...
    def jets(self) -> Iterable[Jet]: ...
''', {
    "root": "Ev",
    "Ev": [("a", "float"), ("n", "int"), ("flag", "bool"), ("jets", ("It", ("Obj", "Jet")))],
    "Jet": [("pt", "float"), ("ntrk", "int"), ("trks", ("It", ("Obj", "Trk"))), ("good", "bool")],
    "Trk": [("q", "int")],
    "seq_methods": [("Size", "int"), ("Lead", "ELEM")],
})

MODELS["dataclass"] = (HEADER + '''
class Trk:
    def q(self) -> int: ...
class Jet:
    def pt(self) -> float: ...
    def ntrk(self) -> int: ...
    def trks(self) -> Iterable[Trk]: ...
    def good(self) -> bool: ...
@dataclass
class Info:
    x: float
    k: int
    js: Iterable[Jet]
class Ev:
    def a(self) -> float: ...
    def n(self) -> int: ...
    def flag(self) -> bool: ...
    def jets(self) -> Iterable[Jet]: ...
    def info(self) -> Info: ...
''', {
    "root": "Ev",
    "Ev": [("a", "float"), ("n", "int"), ("flag", "bool"), ("jets", ("It", ("Obj", "Jet"))), ("info", ("Obj", "Info"))],
    "Jet": [("pt", "float"), ("ntrk", "int"), ("trks", ("It", ("Obj", "Trk"))), ("good", "bool")],
    "Trk": [("q", "int")],
    "Info.fields": [("x", "float"), ("k", "int"), ("js", ("It", ("Obj", "Jet")))],
})


_LOADS = [0]


def load(name):
    """exec the model in a real (registered) module so that typing.get_type_hints can resolve
    the string annotations of its classes"""
    import sys
    import types

    src, desc = MODELS[name]
    if name == "fwdref":
        # typing caches `Iterable["Jet"]` together with the class its forward reference was first resolved to: executing
        # this source twice in one process would hand the second Jet class the first one's annotations (a python artefact
        # of re-executing a module, nothing the library can do about) - the model is loaded once per process
        if name not in _ONCE:
            _ONCE[name] = _load_fresh(name)
        return _ONCE[name]
    return _load_fresh(name)


_ONCE = {}


def _load_fresh(name):
    import sys
    import types

    src, desc = MODELS[name]
    _LOADS[0] += 1
    modname = f"fadlmc_model_{name}"
    mod = types.ModuleType(modname)
    sys.modules[modname] = mod
    exec(src, mod.__dict__)
    return mod.__dict__, desc


def elem(t):
    "element type of a sequence type in my representation, or None"
    if isinstance(t, tuple) and t[0] == "It":
        return t[1]
    if isinstance(t, tuple) and t[0] == "ItObj":
        return t[2]
    return None


def to_py(t, g):
    "my representation -> the typing object the annotations denote"
    if t == "Any":
        return Any
    if isinstance(t, str):
        return {"float": float, "int": int, "bool": bool, "str": str}[t]
    if t[0] == "It":
        return Iterable[to_py(t[1], g)]
    if t[0] in ("Obj", "ItObj"):
        return eval(t[1], g)
    raise ValueError(t)


def _subst(t, mapping):
    "substitute type variables at any depth of a typing object"
    import typing

    if t in mapping:
        return mapping[t]
    params = getattr(t, "__parameters__", ())
    if params and any(p in mapping for p in params):
        return t[tuple(mapping.get(p, p) for p in params)]
    return t


def py_elem(pt, depth=0):
    """independent unwrapping of a Python typing object: the element type if it is an iterable
    (Iterable[X] itself, or a class deriving from Iterable[X], type variables substituted)"""
    import collections.abc
    import typing

    if pt is Any or depth > 6:
        return None
    origin = typing.get_origin(pt)
    args = typing.get_args(pt)
    if origin is collections.abc.Iterable:
        return args[0] if args else Any
    cls = origin if origin is not None else pt
    if not isinstance(cls, type):
        return None
    params = getattr(cls, "__parameters__", ())
    mapping = dict(zip(params, args))
    for b in getattr(cls, "__orig_bases__", ()):
        bo = typing.get_origin(b)
        ba = typing.get_args(b)
        if bo is None:
            r = py_elem(b, depth + 1)
            if r is not None:
                return r
            continue
        ba = tuple(_subst(a, mapping) for a in ba)
        if bo is collections.abc.Iterable:
            return ba[0]
        if isinstance(bo, type) and ba:
            try:
                r = py_elem(bo[ba], depth + 1)
            except TypeError:
                r = None
            if r is not None:
                return r
    for b in cls.__bases__:
        if b is not object and b is not typing.Generic and not getattr(cls, "__orig_bases__", None):
            r = py_elem(b, depth + 1)
            if r is not None:
                return r
    return None
