"""E3 - class models for the type-following checks (C08, C09): source text that is exec'd (so
inspect.signature / get_type_hints see ordinary classes) plus a hand-written, monomorphised
description of what the annotations imply (the independent oracle)."""
from typing import Any, Iterable

# my type representation: 'float' 'int' 'bool' 'str' 'Any' ('It', T) ('Obj', name) ('Dic', ((k, T), ...))
# a description maps  object-type-name -> [(method, result type)]  and  iterable-type-name -> element type

HEADER = "from __future__ import annotations\nfrom dataclasses import dataclass\nfrom typing import *\n" \
         "from func_adl import ObjectStream, register_func_adl_os_collection\n"

MODELS = {}

MODELS["plain"] = (HEADER + '''
class Trk:
    def q(self) -> int: ...
class Jet:
    def pt(self) -> float: ...
    def ntrk(self) -> int: ...
    def trks(self) -> Iterable[Trk]: ...
    def good(self) -> bool: ...
class Ev:
    def a(self) -> float: ...
    def n(self) -> int: ...
    def flag(self) -> bool: ...
    def name(self) -> str: ...
    def untyped(self): ...
    def jets(self) -> Iterable[Jet]: ...
    def lead(self) -> Jet: ...
''', {
    "root": "Ev",
    "Ev": [("a", "float"), ("n", "int"), ("flag", "bool"), ("name", "str"), ("untyped", "Any"),
           ("jets", ("It", ("Obj", "Jet"))), ("lead", ("Obj", "Jet"))],
    "Jet": [("pt", "float"), ("ntrk", "int"), ("trks", ("It", ("Obj", "Trk"))), ("good", "bool")],
    "Trk": [("q", "int")],
})

MODELS["inherit"] = (HEADER + '''
class TrkBase:
    def q(self) -> int: ...
class Trk(TrkBase):
    pass
class JetBase:
    def pt(self) -> float: ...
    def trks(self) -> Iterable[Trk]: ...
class Jet(JetBase):
    def ntrk(self) -> int: ...
    def good(self) -> bool: ...
class EvBase:
    def a(self) -> float: ...
    def jets(self) -> Iterable[Jet]: ...
class EvMid(EvBase):
    def n(self) -> int: ...
    def flag(self) -> bool: ...
class Ev(EvMid):
    def name(self) -> str: ...
    def untyped(self): ...
    def lead(self) -> Jet: ...
''', MODELS["plain"][1])

MODELS["generic"] = (HEADER + '''
T = TypeVar("T")
U = TypeVar("U")
class Trk:
    def q(self) -> int: ...
class Coll(Generic[T]):
    def first(self) -> T: ...
    def items(self) -> Iterable[T]: ...
    def size(self) -> int: ...
class Sub(Coll[U]):
    def second(self) -> U: ...
class Jet:
    def pt(self) -> float: ...
    def ntrk(self) -> int: ...
    def trks(self) -> Iterable[Trk]: ...
    def tcoll(self) -> Coll[Trk]: ...
    def good(self) -> bool: ...
class JetColl(Coll[Jet]):
    def leading(self) -> Jet: ...
class Ev:
    def a(self) -> float: ...
    def n(self) -> int: ...
    def flag(self) -> bool: ...
    def jets(self) -> Iterable[Jet]: ...
    def coll(self) -> Coll[Jet]: ...
    def sub(self) -> Sub[Jet]: ...
    def jcoll(self) -> JetColl: ...
''', {
    "root": "Ev",
    "Ev": [("a", "float"), ("n", "int"), ("flag", "bool"), ("jets", ("It", ("Obj", "Jet"))),
           ("coll", ("Obj", "Coll[Jet]")), ("sub", ("Obj", "Sub[Jet]")), ("jcoll", ("Obj", "JetColl"))],
    "Jet": [("pt", "float"), ("ntrk", "int"), ("trks", ("It", ("Obj", "Trk"))), ("tcoll", ("Obj", "Coll[Trk]")),
            ("good", "bool")],
    "Trk": [("q", "int")],
    "Coll[Jet]": [("first", ("Obj", "Jet")), ("items", ("It", ("Obj", "Jet"))), ("size", "int")],
    "Coll[Trk]": [("first", ("Obj", "Trk")), ("items", ("It", ("Obj", "Trk"))), ("size", "int")],
    "Sub[Jet]": [("first", ("Obj", "Jet")), ("items", ("It", ("Obj", "Jet"))), ("size", "int"),
                 ("second", ("Obj", "Jet"))],
    "JetColl": [("first", ("Obj", "Jet")), ("items", ("It", ("Obj", "Jet"))), ("size", "int"),
                ("leading", ("Obj", "Jet"))],
})

MODELS["iterable"] = (HEADER + '''
T = TypeVar("T")
class Trk:
    def q(self) -> int: ...
class Jet:
    def pt(self) -> float: ...
    def ntrk(self) -> int: ...
    def trks(self) -> TrkList: ...
    def good(self) -> bool: ...
class JetList(Iterable[Jet]):
    def leading(self) -> Jet: ...
    def njets(self) -> int: ...
class MyList(Iterable[T]):
    def head(self) -> T: ...
class TrkList(MyList[Trk]):
    pass
class Ev:
    def a(self) -> float: ...
    def n(self) -> int: ...
    def flag(self) -> bool: ...
    def jets(self) -> JetList: ...
    def mjets(self) -> MyList[Jet]: ...
''', {
    "root": "Ev",
    "Ev": [("a", "float"), ("n", "int"), ("flag", "bool"), ("jets", ("ItObj", "JetList", ("Obj", "Jet"))),
           ("mjets", ("ItObj", "MyList[Jet]", ("Obj", "Jet")))],
    "Jet": [("pt", "float"), ("ntrk", "int"), ("trks", ("ItObj", "TrkList", ("Obj", "Trk"))), ("good", "bool")],
    "Trk": [("q", "int")],
    "JetList": [("leading", ("Obj", "Jet")), ("njets", "int")],
    "MyList[Jet]": [("head", ("Obj", "Jet"))],
    "TrkList": [("head", ("Obj", "Trk"))],
})

MODELS["collection"] = (HEADER + '''
M = TypeVar("M")
@register_func_adl_os_collection
class MyColl(ObjectStream[M]):
    def __init__(self, a, item_type=Any):
        super().__init__(a, item_type)
    def Take(self, n: int = 5) -> ObjectStream[M]: ...
    def Size(self) -> int: ...
    def Lead(self) -> M: ...
class Trk:
    def q(self) -> int: ...
class Jet:
    def pt(self) -> float: ...
    def ntrk(self) -> int: ...
    def trks(self) -> Iterable[Trk]: ...
    def good(self) -> bool: ...
class Ev:
    def a(self) -> float: ...
    def n(self) -> int: ...
    def flag(self) -> bool: ...
    def jets(self) -> Iterable[Jet]: ...
''', {
    "root": "Ev",
    "Ev": [("a", "float"), ("n", "int"), ("flag", "bool"), ("jets", ("It", ("Obj", "Jet")))],
    "Jet": [("pt", "float"), ("ntrk", "int"), ("trks", ("It", ("Obj", "Trk"))), ("good", "bool")],
    "Trk": [("q", "int")],
    "seq_methods": [("Size", "int"), ("Lead", "ELEM")],
})

MODELS["dataclass"] = (HEADER + '''
class Trk:
    def q(self) -> int: ...
class Jet:
    def pt(self) -> float: ...
    def ntrk(self) -> int: ...
    def trks(self) -> Iterable[Trk]: ...
    def good(self) -> bool: ...
@dataclass
class Info:
    x: float
    k: int
    js: Iterable[Jet]
class Ev:
    def a(self) -> float: ...
    def n(self) -> int: ...
    def flag(self) -> bool: ...
    def jets(self) -> Iterable[Jet]: ...
    def info(self) -> Info: ...
''', {
    "root": "Ev",
    "Ev": [("a", "float"), ("n", "int"), ("flag", "bool"), ("jets", ("It", ("Obj", "Jet"))), ("info", ("Obj", "Info"))],
    "Jet": [("pt", "float"), ("ntrk", "int"), ("trks", ("It", ("Obj", "Trk"))), ("good", "bool")],
    "Trk": [("q", "int")],
    "Info.fields": [("x", "float"), ("k", "int"), ("js", ("It", ("Obj", "Jet")))],
})


_LOADS = [0]


def load(name):
    """exec the model in a real (registered) module so that typing.get_type_hints can resolve
    the string annotations of its classes"""
    import sys
    import types

    src, desc = MODELS[name]
    _LOADS[0] += 1
    modname = f"fadlmc_model_{name}"
    mod = types.ModuleType(modname)
    sys.modules[modname] = mod
    exec(src, mod.__dict__)
    return mod.__dict__, desc


def elem(t):
    "element type of a sequence type in my representation, or None"
    if isinstance(t, tuple) and t[0] == "It":
        return t[1]
    if isinstance(t, tuple) and t[0] == "ItObj":
        return t[2]
    return None


def to_py(t, g):
    "my representation -> the typing object the annotations denote"
    if t == "Any":
        return Any
    if isinstance(t, str):
        return {"float": float, "int": int, "bool": bool, "str": str}[t]
    if t[0] == "It":
        return Iterable[to_py(t[1], g)]
    if t[0] in ("Obj", "ItObj"):
        return eval(t[1], g)
    raise ValueError(t)


def py_elem(pt, depth=0):
    """independent unwrapping of a Python typing object: the element type if it is an iterable
    (Iterable[X] itself, or a class deriving from Iterable[X], type variables substituted)"""
    import collections.abc
    import typing

    if pt is Any or depth > 6:
        return None
    origin = typing.get_origin(pt)
    args = typing.get_args(pt)
    if origin is collections.abc.Iterable:
        return args[0] if args else Any
    cls = origin if origin is not None else pt
    if not isinstance(cls, type):
        return None
    params = getattr(cls, "__parameters__", ())
    mapping = dict(zip(params, args))
    for b in getattr(cls, "__orig_bases__", ()):
        bo = typing.get_origin(b)
        ba = typing.get_args(b)
        if bo is None:
            r = py_elem(b, depth + 1)
            if r is not None:
                return r
            continue
        ba = tuple(mapping.get(a, a) for a in ba)
        if bo is collections.abc.Iterable:
            return ba[0]
        if isinstance(bo, type) and ba:
            try:
                r = py_elem(bo[ba], depth + 1)
            except TypeError:
                r = None
            if r is not None:
                return r
    for b in cls.__bases__:
        if b is not object and b is not typing.Generic and not getattr(cls, "__orig_bases__", None):
            r = py_elem(b, depth + 1)
            if r is not None:
                return r
    return None
