"""E1/E1b - typed, size-bounded, deterministic term enumerator with binder-naming schemes.

Terms are nested tuples with de Bruijn indices for variables; every term carries its type, so
each generated program is closed, type-correct and Python-executable by construction.

Types: 'Ev' 'Jet' 'Trk' 'Int' 'Bool' ('Seq',T) ('Tup',(T..)) ('Lst',(T..)) ('Dic',((k,T)..))

Nodes (size = number of nodes; a lambda is part of the node that introduces it):
  ('ds',)                        the root dataset                      Seq[Ev]
  ('var',k)                      de Bruijn index, 0 = innermost binder
  ('attr',obj,name)  ('meth',obj,name,args,kwmask)   attribute / method call (kwmask: which args by keyword)
  ('const',v)  ('bin',op,l,r)  ('neg',x)  ('not',x)  ('cmp',op,l,r)  ('bool',op,l,r)  ('ifexp',t,c,f)
  ('op',Name,form,src,body)      Select/Where/SelectMany, form 'f' Op(src, lam) or 'm' src.Op(lam)
  ('count',form,seq)             form 'f' Count(s), 'm' s.Count(), 'len' len(s)
  ('first',form,seq)
  ('app',body,arg,kw)            (lambda x: body)(arg)   kw: (lambda x: body)(x=arg)
  ('tup',elts) ('lst',elts) ('dic',keys,elts)   packages
  ('idx',pkg,i) ('key',pkg,k) ('dattr',pkg,k)   constant projections  p[i]  p['k']  p.k
  ('sidx',seq,sel)               seq[sel]: subscript of a sequence-valued expression by an Int expression
  ('hof',body,arg)               (lambda f: f(arg))(lambda x: body): a lambda handed to a called lambda, applied by name
  ('idxv',pkg,sel)               non-constant / odd selector forms (C18 only), sel is a source fragment tag
"""
import itertools

INT, BOOL, EV, JET, TRK = "Int", "Bool", "Ev", "Jet", "Trk"


def Seq(t):
    return ("Seq", t)


ATTRS = {
    EV: [("a", INT), ("b", INT), ("jets", Seq(JET)), ("trks", Seq(TRK))],
    JET: [("pt", INT), ("eta", INT), ("tr", Seq(TRK))],
    TRK: [("q", INT)],
}
# methods: name -> (class, [param names], number of defaulted params, result type)
METHS = {
    JET: [("ptS", ["k"], 1, INT)],
    EV: [("met", ["s", "t"], 1, INT)],
}

FULL = frozenset(
    "attr attr2 meth const bin neg cmp bool not ifexp op count first app appkw tup lst dic proj true".split()
)


class Grammar:
    """cfg: set of enabled productions.  forms: which call forms operators may take."""

    def __init__(self, prods=FULL, forms=("f",), ops=("Select", "Where", "SelectMany"),
                 count_forms=None, consts=(1,), max_pkg=2, pkg_depth=1, seq_attrs=None, int_attrs=None,
                 meth_shapes="basic"):
        self.p = frozenset(prods)
        self.forms = forms
        self.ops = ops
        self.count_forms = count_forms or (("f", "m", "len") if "m" in forms else ("f",))
        self.consts = consts
        self.max_pkg = max_pkg
        self.pkg_depth = pkg_depth
        self.seq_attrs = seq_attrs
        self.int_attrs = int_attrs
        self.meth_shapes = meth_shapes
        self.memo = {}

    # ---------------------------------------------------------------- helpers
    def _attrs(self, cls):
        for name, t in ATTRS.get(cls, []):
            if t == INT:
                if self.int_attrs is not None and name not in self.int_attrs:
                    continue
                if "attr2" not in self.p and name in ("b", "eta"):
                    continue
            else:
                if self.seq_attrs is not None and name not in self.seq_attrs:
                    continue
                if "attr2" not in self.p and name in ("trks",):
                    continue
            yield name, t

    @staticmethod
    def pkg_depth_of(t):
        if isinstance(t, tuple):
            if t[0] == "Seq":
                return Grammar.pkg_depth_of(t[1])
            if t[0] in ("Tup", "Lst"):
                return 1 + max(Grammar.pkg_depth_of(x) for x in t[1])
            if t[0] == "Dic":
                return 1 + max(Grammar.pkg_depth_of(x) for _, x in t[1])
        return 0

    # ---------------------------------------------------------------- enumeration
    def gen(self, ctx, n):
        """All (type, term) with exactly n nodes in binder context ctx (tuple of types)."""
        key = (ctx, n)
        r = self.memo.get(key)
        if r is None:
            r = self.memo[key] = list(self._gen(ctx, n))
        return r

    def splits(self, n, k):
        "ordered k-tuples of positive ints summing to n"
        if k == 1:
            if n >= 1:
                yield (n,)
            return
        for i in range(1, n - k + 2):
            for rest in self.splits(n - i, k - 1):
                yield (i,) + rest

    def _gen(self, ctx, n):
        P = self.p
        if n == 1:
            if not ctx:
                pass
            yield (Seq(EV), ("ds",))
            for k in range(len(ctx)):
                yield (ctx[len(ctx) - 1 - k], ("var", k))
            if "const" in P:
                for c in self.consts:
                    yield (INT, ("const", c))
            if "true" in P:
                yield (BOOL, ("const", True))
            return
        m = n - 1
        # ---- unary over one child of size m
        for t, x in self.gen(ctx, m):
            if "attr" in P and t in ATTRS:
                for name, at in self._attrs(t):
                    yield (at, ("attr", x, name))
            if "meth" in P and t in METHS:
                for name, params, ndef, rt in METHS[t]:
                    if len(params) - ndef == 0:
                        yield (rt, ("meth", x, name, (), ()))
            if t == INT and "neg" in P:
                yield (INT, ("neg", x))
            if t == BOOL and "not" in P:
                yield (BOOL, ("not", x))
            if isinstance(t, tuple) and t[0] == "Seq":
                if "count" in P:
                    for f in self.count_forms:
                        yield (INT, ("count", f, x))
                if "first" in P:
                    for f in self.forms:
                        yield (t[1], ("first", f, x))
            if "proj" in P and isinstance(t, tuple):
                if t[0] in ("Tup", "Lst"):
                    for i, et in enumerate(t[1]):
                        yield (et, ("idx", x, i))
                elif t[0] == "Dic":
                    for k, et in t[1]:
                        yield (et, ("key", x, k))
                        yield (et, ("dattr", x, k))
        # ---- odd selectors on packages (C18): negative, slice, out of range, absent key
        if "oddproj" in P:
            for t, x in self.gen(ctx, m):
                if isinstance(t, tuple) and t[0] in ("Tup", "Lst"):
                    yield (t[1][-1], ("idxv", x, "-1"))
                    yield ((t[0], t[1][:1]), ("idxv", x, "0:1"))
                    yield (t[1][0], ("idxv", x, str(len(t[1]))))
                    yield (t[1][0], ("idxv", x, str(len(t[1]) + 1)))
                    yield (t[1][0], ("idxw", x, "-" + str(len(t[1]) + 1)))
                    yield (t[1][0], ("idxw", x, "'k'"))
                    yield (t[1][0], ("idxw", x, "1.5"))
                elif isinstance(t, tuple) and t[0] == "Dic":
                    yield (t[1][0][1], ("idxv", x, "'zz'"))
                    yield (t[1][0][1], ("dattr", x, "zz"))
                    yield (t[1][0][1], ("keyv", x, "7"))
                    yield (t[1][0][1], ("keyv", x, "'b-jet'"))
                    yield (t[1][0][1], ("keyv", x, "''"))
            if m >= 2:
                for n1 in range(1, m):
                    for t, x in self.gen(ctx, n1):
                        if isinstance(t, tuple) and t[0] in ("Tup", "Lst") and len(set(t[1])) == 1:
                            for t2, sel in self.gen(ctx, m - n1):
                                if t2 == INT and (sel[0] != "const" or "constsel" in P):
                                    yield (t[1][0], ("idxe", x, sel))
        # ---- called parameterless lambda: (lambda: body)()
        if "app0" in P:
            for tb, body in self.gen(ctx, m):
                if self.pkg_depth_of(tb) <= self.pkg_depth and body[0] != "app0":
                    yield (tb, ("app0", body))
        # ---- method calls with arguments
        if "meth" in P and m >= 2:
            for n1 in range(1, m):
                for t, x in self.gen(ctx, n1):
                    if t not in METHS:
                        continue
                    for name, params, ndef, rt in METHS[t]:
                        nreq = len(params) - ndef
                        for nargs in range(max(1, nreq), len(params) + 1):
                            for sp in self.splits(m - n1, nargs):
                                pools = [[a for (at, a) in self.gen(ctx, s) if at == INT] for s in sp]
                                for args in itertools.product(*pools):
                                    for kwmask in self._kwmasks(nargs):
                                        yield (rt, ("meth", x, name, tuple(args), kwmask))
        # ---- binary
        if m >= 2:
            for n1 in range(1, m):
                n2 = m - n1
                L = self.gen(ctx, n1)
                R = None
                for t1, a in L:
                    if t1 == INT and ("bin" in P or "cmp" in P):
                        R = R if R is not None else self.gen(ctx, n2)
                        for t2, b in R:
                            if t2 == INT:
                                if "bin" in P:
                                    yield (INT, ("bin", "+", a, b))
                                if "cmp" in P:
                                    yield (BOOL, ("cmp", ">", a, b))
                    if t1 == BOOL and "bool" in P:
                        R = R if R is not None else self.gen(ctx, n2)
                        for t2, b in R:
                            if t2 == BOOL:
                                yield (BOOL, ("bool", "and", a, b))
                                if "or" in P:
                                    yield (BOOL, ("bool", "or", a, b))
                    # stream operators: src of size n1 in ctx, body of size n2 under a new binder
                    if "op" in P and isinstance(t1, tuple) and t1[0] == "Seq":
                        B = self.gen(ctx + (t1[1],), n2)
                        for t2, b in B:
                            for op in self.ops:
                                if op == "Select":
                                    rt = Seq(t2)
                                elif op == "Where":
                                    if t2 != BOOL:
                                        continue
                                    rt = t1
                                else:
                                    if not (isinstance(t2, tuple) and t2[0] == "Seq"):
                                        continue
                                    rt = t2
                                if self.pkg_depth_of(rt) > self.pkg_depth:
                                    continue
                                for f in self.forms:
                                    yield (rt, ("op", op, f, a, b))
                if "sidx" in P:
                    for t1, a in L:
                        if isinstance(t1, tuple) and t1[0] == "Seq":
                            for t2, b in self.gen(ctx, n2):
                                if t2 == INT:
                                    yield (t1[1], ("sidx", a, b))
                if "hof" in P:
                    for t2, arg in self.gen(ctx, n2):
                        if t2 == BOOL:
                            continue
                        for tb, body in self.gen(ctx + (t2,), n1):
                            if self.pkg_depth_of(tb) <= self.pkg_depth:
                                yield (tb, ("hof", body, arg))
                # called lambda: body of size n1 under binder of arg's type, arg of size n2
                if "app" in P:
                    for t2, arg in self.gen(ctx, n2):
                        if t2 == BOOL:
                            continue
                        for tb, body in self.gen(ctx + (t2,), n1):
                            if self.pkg_depth_of(tb) > self.pkg_depth:
                                continue
                            yield (tb, ("app", body, arg, False))
                            if "appkw" in P:
                                yield (tb, ("app", body, arg, True))
        # ---- called two-parameter lambda: (lambda x, y: body)(a1, a2)
        if "app2" in P and m >= 3:
            for n1, n2, n3 in self.splits(m, 3):
                for t2, a1 in self.gen(ctx, n2):
                    if t2 == BOOL:
                        continue
                    for t3, a2 in self.gen(ctx, n3):
                        if t3 == BOOL:
                            continue
                        for tb, body in self.gen(ctx + (t2, t3), n1):
                            if self.pkg_depth_of(tb) > self.pkg_depth:
                                continue
                            yield (tb, ("app2", body, a1, a2, 0))
                            if "appkw" in P:
                                yield (tb, ("app2", body, a1, a2, 1))  # second by keyword
                                yield (tb, ("app2", body, a1, a2, 2))  # both by keyword, reversed
                            if "appdef" in P:
                                yield (tb, ("app2", body, a1, a2, 3))  # second parameter defaulted, not passed
                                yield (tb, ("app2", body, a1, a2, 4))  # defaulted (to the first argument), passed positionally
                                yield (tb, ("app2", body, a1, a2, 5))  # keyword-only with default, not passed
        # ---- ternary
        if "ifexp" in P and m >= 3:
            for n1, n2, n3 in self.splits(m, 3):
                for t1, a in self.gen(ctx, n1):
                    if t1 != INT:
                        continue
                    for t2, c in self.gen(ctx, n2):
                        if t2 != BOOL:
                            continue
                        for t3, b in self.gen(ctx, n3):
                            if t3 == INT:
                                yield (INT, ("ifexp", a, c, b))
        # ---- packages
        for kind, tag in (("tup", "Tup"), ("lst", "Lst"), ("dic", "Dic")):
            if kind not in P:
                continue
            for k in range(1, self.max_pkg + 1):
                if m < k:
                    continue
                if kind != "tup" and k == 1 and False:
                    continue
                for sp in self.splits(m, k):
                    pools = [[(t, a) for (t, a) in self.gen(ctx, s) if t != BOOL] for s in sp]
                    for combo in itertools.product(*pools):
                        ts = tuple(t for t, _ in combo)
                        el = tuple(a for _, a in combo)
                        if kind == "dic":
                            keys = tuple(f"k{i}" for i in range(k))
                            pt = ("Dic", tuple(zip(keys, ts)))
                            if self.pkg_depth_of(pt) > self.pkg_depth:
                                continue
                            yield (pt, ("dic", keys, el))
                        else:
                            pt = (tag, ts)
                            if self.pkg_depth_of(pt) > self.pkg_depth:
                                continue
                            yield (pt, (kind, el))

    def _kwmasks(self, nargs):
        "which of the given args are passed by keyword: a suffix (python requires kw after positional)"
        if self.meth_shapes == "basic":
            yield tuple([False] * nargs)
            yield tuple([False] * (nargs - 1) + [True])
        else:
            for nk in range(nargs + 1):
                yield tuple([False] * (nargs - nk) + [True] * nk)

    def queries(self, n, pred=None):
        "closed terms of exactly n nodes"
        for t, x in self.gen((), n):
            if pred is None or pred(t, x):
                yield t, x


# -------------------------------------------------------------------- binders / rendering
def binder_info(term, nctx=0):
    """Returns (nbinders, refs) where refs is a list of (binder_id, [intervening binder ids])
    in traversal order.  Binder ids are assigned in render order.  For open terms the nctx context
    variables are the pseudo binders -1 (outermost) .. -nctx (innermost)."""
    counter = [0]
    refs = []

    def walk(t, stack):
        tag = t[0]
        if tag == "var":
            k = t[1]
            b = stack[len(stack) - 1 - k]
            refs.append((b, tuple(stack[len(stack) - k:])))
        elif tag == "ds":
            refs.append((DSID, tuple(stack)))  # the free name `ds` must not be captured by a binder named ds
        elif tag == "const":
            pass
        elif tag == "hof":
            bf = counter[0]
            bx = counter[0] + 1
            counter[0] += 2
            k0 = len(refs)
            walk(t[2], stack)  # the argument sits under the binder f (which its de Bruijn indices skip)
            refs[k0:] = [(b, inter + (bf,)) for b, inter in refs[k0:]]
            walk(t[1], stack + [bx])
        elif tag == "op":
            walk(t[3], stack)
            bid = counter[0]
            counter[0] += 1
            walk(t[4], stack + [bid])
        elif tag == "app":
            bid = counter[0]
            counter[0] += 1
            walk(t[1], stack + [bid])
            walk(t[2], stack)
        elif tag == "app2":
            b1 = counter[0]
            b2 = counter[0] + 1
            counter[0] += 2
            refs.append((b1, (b2,)))  # two parameters of one lambda need different names
            walk(t[1], stack + [b1, b2])
            walk(t[2], stack)
            walk(t[3], stack)
        elif tag == "meth":
            walk(t[1], stack)
            for a in t[3]:
                walk(a, stack)
        elif tag in ("tup", "lst"):
            for a in t[1]:
                walk(a, stack)
        elif tag == "dic":
            for a in t[2]:
                walk(a, stack)
        else:
            for c in t[1:]:
                if isinstance(c, tuple) and c and isinstance(c[0], str) and c[0] in _TAGS:
                    walk(c, stack)

    walk(term, [-(i + 1) for i in range(nctx)])
    return counter[0], refs


DSID = -1000

_TAGS = {"sidx", "hof", "ds", "var", "attr", "meth", "const", "bin", "neg", "not", "cmp", "bool", "ifexp", "op",
         "count", "first", "app", "tup", "lst", "dic", "idx", "key", "dattr", "idxv", "idxe", "app2", "keyv", "app0", "idxw"}


def namings(term, pool, ctx_names=()):
    """Every assignment of pool names to binders under which each reference still reaches its
    binder (no intervening binder of the same name).  ctx_names: fixed names of the context
    variables of an open term, outermost first."""
    nb, refs = binder_info(term, len(ctx_names))
    cons = set()
    for b, inter in refs:
        for i in inter:
            if i >= 0:
                cons.add((b, i))

    def nm(names, b):
        if b == DSID:
            return "ds"
        return names[b] if b >= 0 else ctx_names[-b - 1]

    for names in itertools.product(pool, repeat=nb):
        if all(nm(names, b) != names[i] for b, i in cons):
            yield names


def render(term, names, ctx_names=()):
    """Source text of a term under a naming (tuple of names, in binder order); ctx_names are the
    names of an open term's context variables, outermost first."""
    counter = [0]

    def r(t, stack):
        tag = t[0]
        if tag == "ds":
            return "ds"
        if tag == "var":
            return stack[len(stack) - 1 - t[1]]
        if tag == "const":
            return repr(t[1])
        if tag == "attr":
            return f"{r(t[1], stack)}.{t[2]}"
        if tag == "meth":
            obj = r(t[1], stack)
            params = _meth_params(t[2])
            parts = []
            for i, a in enumerate(t[3]):
                s = r(a, stack)
                parts.append(f"{params[i]}={s}" if t[4][i] else s)
            return f"{obj}.{t[2]}({', '.join(parts)})"
        if tag == "bin":
            return f"({r(t[2], stack)} {t[1]} {r(t[3], stack)})"
        if tag == "cmp":
            return f"({r(t[2], stack)} {t[1]} {r(t[3], stack)})"
        if tag == "bool":
            return f"({r(t[2], stack)} {t[1]} {r(t[3], stack)})"
        if tag == "neg":
            return f"(-{r(t[1], stack)})"
        if tag == "not":
            return f"(not {r(t[1], stack)})"
        if tag == "ifexp":
            return f"({r(t[1], stack)} if {r(t[2], stack)} else {r(t[3], stack)})"
        if tag == "op":
            src = r(t[3], stack)
            nm = names[counter[0]]
            counter[0] += 1
            body = r(t[4], stack + [nm])
            if t[2] == "f":
                return f"{t[1]}({src}, lambda {nm}: {body})"
            return f"{src}.{t[1]}(lambda {nm}: {body})"
        if tag == "app":
            nm = names[counter[0]]
            counter[0] += 1
            body = r(t[1], stack + [nm])
            arg = r(t[2], stack)
            if t[3]:
                return f"(lambda {nm}: {body})({nm}={arg})"
            return f"(lambda {nm}: {body})({arg})"
        if tag == "app0":
            return f"(lambda: {r(t[1], stack)})()"
        if tag == "hof":
            nf = names[counter[0]]
            nx = names[counter[0] + 1]
            counter[0] += 2
            arg = r(t[2], stack)
            body = r(t[1], stack + [nx])
            return f"(lambda {nf}: {nf}({arg}))(lambda {nx}: {body})"
        if tag == "sidx":
            return f"{r(t[1], stack)}[{r(t[2], stack)}]"
        if tag == "app2":
            n1 = names[counter[0]]
            n2 = names[counter[0] + 1]
            counter[0] += 2
            body = r(t[1], stack + [n1, n2])
            a1 = r(t[2], stack)
            a2 = r(t[3], stack)
            if t[4] == 0:
                return f"(lambda {n1}, {n2}: {body})({a1}, {a2})"
            if t[4] == 1:
                return f"(lambda {n1}, {n2}: {body})({a1}, {n2}={a2})"
            if t[4] == 3:
                return f"(lambda {n1}, {n2}={a2}: {body})({a1})"
            if t[4] == 4:
                return f"(lambda {n1}, {n2}={a1}: {body})({a1}, {a2})"
            if t[4] == 5:
                return f"(lambda {n1}, *, {n2}={a2}: {body})({a1})"
            return f"(lambda {n1}, {n2}: {body})({n2}={a2}, {n1}={a1})"
        if tag == "count":
            s = r(t[2], stack)
            return {"f": f"Count({s})", "m": f"{s}.Count()", "len": f"len({s})"}[t[1]]
        if tag == "first":
            s = r(t[2], stack)
            return f"First({s})" if t[1] == "f" else f"{s}.First()"
        if tag == "tup":
            el = [r(a, stack) for a in t[1]]
            return "(" + ", ".join(el) + ("," if len(el) == 1 else "") + ")"
        if tag == "lst":
            return "[" + ", ".join(r(a, stack) for a in t[1]) + "]"
        if tag == "dic":
            return "{" + ", ".join(f"{k!r}: {r(a, stack)}" for k, a in zip(t[1], t[2])) + "}"
        if tag == "idx":
            return f"{r(t[1], stack)}[{t[2]}]"
        if tag == "key":
            return f"{r(t[1], stack)}[{t[2]!r}]"
        if tag == "dattr":
            return f"{r(t[1], stack)}.{t[2]}"
        if tag in ("idxv", "keyv", "idxw"):
            return f"{r(t[1], stack)}[{t[2]}]"
        if tag == "idxe":
            return f"{r(t[1], stack)}[{r(t[2], stack)}]"
        raise ValueError(tag)

    return r(term, list(ctx_names))


def _meth_params(name):
    for cls, ms in METHS.items():
        for n, params, ndef, rt in ms:
            if n == name:
                return params
    raise KeyError(name)


def type_str(t):
    if isinstance(t, str):
        return t
    if t[0] == "Seq":
        return f"Seq[{type_str(t[1])}]"
    if t[0] in ("Tup", "Lst"):
        return f"{t[0]}[{','.join(type_str(x) for x in t[1])}]"
    if t[0] == "Dic":
        return "Dic{" + ",".join(f"{k}:{type_str(x)}" for k, x in t[1]) + "}"
    return str(t)


def has_mode(term, tag, modes):
    "does the term contain a node `tag` whose last field is one of modes"
    if term[0] == tag and term[-1] in modes:
        return True
    for c in term[1:]:
        if isinstance(c, tuple):
            if c and isinstance(c[0], str) and c[0] in _TAGS:
                if has_mode(c, tag, modes):
                    return True
            else:
                for cc in c:
                    if isinstance(cc, tuple) and cc and isinstance(cc[0], str) and cc[0] in _TAGS and has_mode(cc, tag, modes):
                        return True
    return False


def has(term, tags):
    "does the term contain a node with one of the tags"
    if term[0] in tags:
        return True
    for c in term[1:]:
        if isinstance(c, tuple):
            if c and isinstance(c[0], str) and c[0] in _TAGS:
                if has(c, tags):
                    return True
            else:
                for cc in c:
                    if isinstance(cc, tuple) and cc and isinstance(cc[0], str) and cc[0] in _TAGS and has(cc, tags):
                        return True
    return False


def count_tag(term, tag):
    n = 1 if term[0] == tag else 0
    for c in term[1:]:
        if isinstance(c, tuple):
            if c and isinstance(c[0], str) and c[0] in _TAGS:
                n += count_tag(c, tag)
            else:
                for cc in c:
                    if isinstance(cc, tuple) and cc and isinstance(cc[0], str) and cc[0] in _TAGS:
                        n += count_tag(cc, tag)
    return n
