"""Developer tool (never used by a registered check): group the violations of a run."""
import json
import os
import sys
from collections import defaultdict

from . import core


def main(args):
    pid = args[0]
    tier = "quick"
    spaces = []
    out = None
    i = 1
    while i < len(args):
        if args[i] == "--tier":
            tier = args[i + 1]; i += 2
        elif args[i] == "--space":
            spaces.append(args[i + 1]); i += 2
        elif args[i] == "--out":
            out = args[i + 1]; i += 2
        else:
            i += 1
    check, agg, info = core.run_check(pid, tier, 0, only_space=spaces or None, collect=True)
    for v in check.finalize(agg):
        agg["viol"].append(v)
    known = {}
    for f in core.load_findings():
        if f.get("property") == pid and f.get("status") == "known":
            for k in f.get("keys", []):
                known[k] = f["id"]
    by = defaultdict(list)
    for v in agg["viol"]:
        k = core.vkey(pid, v["canon"], v["kind"])
        by[(v["kind"], known.get(k, "NEW"))].append(v)
    print("cases", agg["cases"], "harness_errors", len(agg["harness_errors"]))
    for e in agg["harness_errors"][:3]:
        print(e)
    for (kind, fid), vs in sorted(by.items()):
        vs.sort(key=lambda v: (len(v["canon"]), v["canon"]))
        print(f"== {kind} [{fid}] n={len(vs)}")
        for v in vs[:6]:
            print("     ", v["canon"], "::", str(v.get("msg", ""))[:260])
    if out:
        rows = [{"key": core.vkey(pid, v["canon"], v["kind"]), "kind": v["kind"], "canon": v["canon"],
                 "space": v["space"], "msg": v.get("msg", "")} for v in agg["viol"]]
        rows.sort(key=lambda r: (len(r["canon"]), r["canon"], r["kind"]))
        with open(out, "w") as f:
            json.dump(rows, f, indent=0)
        print("wrote", out, len(rows))
    return 0
