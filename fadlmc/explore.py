"""E5 - explicit-state explorer over operation histories on fresh real objects.

A state is the history that reaches it; it is rebuilt on fresh real func_adl objects for every
expansion (live streams alias AST nodes with their parents and carry bound executors, so
rebuilding is cheaper and more trustworthy than copying).  States are de-duplicated by a
canonical heap-graph key (node numbering by first visit, so sharing is part of the key).
"""
import ast

from .core import h64

ANNOT = ("_q_metadata", "_func_adl_executor", "_eds_object", "_old_ast", "_ignore")


def heap_key(roots, item_types, ds_index):
    """Serialise the AST heap reachable from the ordered list of stream roots.
    Each node is numbered at first visit; later visits print a back reference, so two states
    have equal keys iff their heaps are isomorphic INCLUDING sharing.  ds_index maps dataset
    objects / bound executors to small integers."""
    seen = {}
    out = []

    def w(n):
        if isinstance(n, ast.AST):
            i = seen.get(id(n))
            if i is not None:
                out.append(f"^{i}")
                return
            seen[id(n)] = len(seen)
            out.append("(" + type(n).__name__)
            for f in n._fields:
                if hasattr(n, f):
                    out.append(" " + f + "=")
                    w(getattr(n, f))
            d = getattr(n, "__dict__", {})
            for a in ANNOT:
                if a in d:
                    v = d[a]
                    if a == "_q_metadata":
                        out.append(f" @{a}={sorted(v.items())!r}")
                    elif a == "_old_ast":
                        out.append(" @_old_ast=")
                        w(v)
                    elif a == "_ignore":
                        out.append(f" @_ignore={v!r}")
                    else:
                        out.append(f" @{a}={ds_index(v)}")
            out.append(")")
        elif isinstance(n, list):
            out.append("[")
            for x in n:
                w(x)
                out.append(",")
            out.append("]")
        else:
            out.append(f"<{type(n).__name__}:{n!r}>")

    for r, t in zip(roots, item_types):
        w(r)
        out.append(f"|{t!r};")
    return "".join(out)


def plain_dump(n, ds_index=lambda v: "?"):
    "dump with non-field annotations, no sharing information (the invariant's observation)"
    if isinstance(n, ast.AST):
        parts = [type(n).__name__, "("]
        for f in n._fields:
            if hasattr(n, f):
                parts.append(f"{f}={plain_dump(getattr(n, f), ds_index)},")
        d = getattr(n, "__dict__", {})
        for a in ("_q_metadata", "_func_adl_executor", "_eds_object"):
            if a in d:
                v = d[a]
                parts.append(f"@{a}={sorted(v.items())!r}," if a == "_q_metadata" else f"@{a}={ds_index(v)},")
        parts.append(")")
        return "".join(parts)
    if isinstance(n, list):
        return "[" + ",".join(plain_dump(x, ds_index) for x in n) + "]"
    return f"{type(n).__name__}:{n!r}"


def explore(model, prefix, max_depth, budget=None):
    """Breadth-first exploration below `prefix` (a tuple of operations) up to histories of
    length max_depth.  model: fresh() -> world ; enabled(world) -> [op] ; apply(world, op) ->
    list of violations (the invariant / reference-model comparison after that transition) ;
    key(world) -> str.
    Returns dict(states=set of 8-byte hashes, trans=int, viol=[...], depth_done=int, ops=Counter)."""
    from collections import Counter, deque

    states = set()
    viol = []
    ops_count = Counter()
    trans = 0

    def build(hist):
        w = model.fresh()
        for op in hist:
            v = model.apply(w, op)
            if v:
                return w, v
        return w, []

    w0, v0 = build(prefix)
    if v0:
        # the prefix itself violates: reported by the worker that owns the shorter prefix
        viol += [dict(v, hist=prefix) for v in v0]
        return {"states": states, "trans": len(prefix), "viol": viol, "ops": ops_count, "outcomes": set()}
    states.add(h64(model.key(w0)))
    frontier = deque([tuple(prefix)])
    outcomes = set()
    while frontier:
        hist = frontier.popleft()
        if len(hist) >= max_depth:
            continue
        w, _ = build(hist)
        for op in model.enabled(w):
            w2, _ = build(hist)
            vs = model.apply(w2, op)
            trans += 1
            ops_count[model.op_name(op)] += 1
            outcomes.update(model.outcomes(w2))
            if vs:
                for v in vs:
                    viol.append(dict(v, hist=hist + (op,)))
                continue  # do not expand below a violating state
            k = h64(model.key(w2))
            if k not in states:
                states.add(k)
                frontier.append(hist + (op,))
            if budget and trans >= budget:
                return {"states": states, "trans": trans, "viol": viol, "ops": ops_count,
                        "outcomes": outcomes, "capped": True}
    return {"states": states, "trans": trans, "viol": viol, "ops": ops_count, "outcomes": outcomes}
