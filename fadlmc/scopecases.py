"""Written-out scoping skeletons for the simplifier (C02 / C18): an argument that mentions the query's FREE
name `ds` is substituted (called lambda, positional or keyword) into a body in which a fusable construct sits
below one or two uncalled binders; every admissible naming of all binders from a pool that contains `ds`
itself is generated, so a binder may be spelled like the free name that the substituted argument mentions.
The fused sub-expression is visited a second time by the simplifier while those binders are in scope."""
from . import alpha

ARGS = {"int": ("Count(ds)", "First(ds).a"), "seq": ("ds",)}

# {T} = the called lambda's parameter (Int), {X} = the binder directly around the construct (an event)
INNER_INT = [
    "Select(Select({X}.jets, lambda w: {T}), lambda q: q + 1)",
    "Select(Select({X}.jets, lambda w: w.pt), lambda q: q + {T})",
    "Where(Select({X}.jets, lambda w: {T}), lambda q: q > 1)",
    "Select(Where({X}.jets, lambda w: w.pt > {T}), lambda q: q.pt)",
    "Where(Where({X}.jets, lambda w: w.pt > {T}), lambda q: q.pt > 0)",
    "SelectMany(Select({X}.jets, lambda w: w.tr), lambda q: Select(q, lambda z: z.q + {T}))",
    "Select(SelectMany({X}.jets, lambda w: w.tr), lambda q: q.q + {T})",
    "SelectMany(SelectMany({X}.jets, lambda w: Select(w.tr, lambda z: {T})), lambda q: {X}.jets)",
    "First(Select({X}.jets, lambda w: (w.pt, {T})))[1]",
    "First(Select({X}.jets, lambda w: {{'k': {T}}})).k",
    "({X}.a, Select(Select({X}.jets, lambda w: {T}), lambda q: q))[1]",
    "Count(Select(Select({X}.jets, lambda w: {T}), lambda q: q))",
    "(lambda u: Select(Select({X}.jets, lambda w: u), lambda q: q + {T}))({X}.a)",
]
INNER_SEQ = [
    "Select(Select({X}.jets, lambda w: Count({T})), lambda q: q + 1)",
    "Select(Select({T}, lambda w: w.a), lambda q: q + {X}.a)",
    "Where(Select({T}, lambda w: w.a), lambda q: q > {X}.a)",
    "SelectMany(Select({X}.jets, lambda w: {T}), lambda q: Select(q, lambda z: z.a))",
    "First(Select({X}.jets, lambda w: (w.pt, Count({T}))))[1]",
]
BODIES = [
    "Select(ds, lambda x: {I})",
    "SelectMany(ds, lambda x: {I})",
    "Select(ds, lambda y: Select(y.jets, lambda x2: {I}))",
    "Select(Select(ds, lambda y: y), lambda x: {I})",
]
WRAP = ["(lambda t: {B})({A})", "(lambda t: {B})(t={A})"]


def skeletons():
    out = []
    for kind, inners in (("int", INNER_INT), ("seq", INNER_SEQ)):
        for arg in ARGS[kind]:
            for inner in inners:
                for body in BODIES:
                    if body.startswith("SelectMany") and not inner.startswith(("Select", "Where", "SelectMany")):
                        continue  # SelectMany needs a sequence-valued body
                    x = "y" if "x2" in body else "x"  # the construct works on an EVENT: below x2 (a jet) use the outer y
                    b = body.replace("{I}", inner.replace("{X}", x).replace("{T}", "t"))
                    for w in WRAP:
                        out.append(w.replace("{B}", b).replace("{A}", arg))
    return out


def sources(pool=("e", "ds")):
    seen, out = set(), []
    for sk in skeletons():
        for s in alpha.namings_src(sk, pool, allow_free_spelling=True):
            if s not in seen:
                seen.add(s)
                out.append(s)
    return out


# ----------------------------------------------------------------------------------------------------------------
# Where chains: 2..3 filters (comparison, or, and, not, nested or/and, constant) that end up adjacent - directly, with a
# Select in between (the filter is moved past it), or inside a SelectMany / Select lambda over the jets
FILTERS = ["{v}.pt > 1", "{v}.pt > 1 or {v}.eta > 1", "{v}.pt > 1 and {v}.eta > 1", "not {v}.pt > 1",
           "({v}.pt > 1 or {v}.eta > 1) and {v}.pt > 0", "{v}.pt > 1 or ({v}.eta > 1 and {v}.pt > 0)", "True"]


def where_chains():
    import itertools

    out = []
    for n in (2, 3):
        for fs in itertools.product(range(len(FILTERS)), repeat=n):
            if n == 3 and len(set(fs)) == 1:
                continue
            s = "e.jets"
            for i, f in enumerate(fs):
                s = f"Where({s}, lambda j{i}: {FILTERS[f].format(v='j%d' % i)})"
            out.append(f"Select(ds, lambda e: {s})")
            if n == 2:
                a, b = fs
                # a Select between the two filters (Where-of-Select moves the second filter in front of the Select)
                mid = f"Select(Where(e.jets, lambda j0: {FILTERS[a].format(v='j0')}), lambda k: k)"
                out.append(f"Select(ds, lambda e: Where({mid}, lambda j1: {FILTERS[b].format(v='j1')}))")
                out.append(f"SelectMany(ds, lambda e: Where(Where(e.jets, lambda j0: {FILTERS[a].format(v='j0')}), "
                           f"lambda j1: {FILTERS[b].format(v='j1')}))")
                out.append(f"Select(ds, lambda e: Count(Where(Where(e.jets, lambda j0: {FILTERS[a].format(v='j0')}), "
                           f"lambda j1: {FILTERS[b].format(v='j1')})))")
    return out


# ----------------------------------------------------------------------------------------------------------------
# called lambdas with TWO defaulted parameters: every call shape Python accepts (how many positional arguments,
# which keywords, in which order), defaults that are constants or mention the enclosing parameter
def called_defaults():
    import itertools

    out = []
    vals = {"a": "e.a", "b": "e.b", "c": "e.a + e.b"}
    for defaults in (("1", "2"), ("e.b", "2"), ("1", "e.a + 1")):
        head = f"lambda a, b={defaults[0]}, c={defaults[1]}"
        for body in ("(a, b, c)", "a + b * 3 + c * 7"):
            for npos in (0, 1, 2, 3):
                pos = [vals[p] for p in "abc"[:npos]]
                rest = list("abc"[npos:])
                for r in range(len(rest) + 1):
                    for kws in itertools.permutations(rest, r):
                        if "a" in rest and "a" not in kws:
                            continue  # a has no default
                        args = pos + [f"{k}={vals[k]}" for k in kws]
                        out.append(f"Select(ds, lambda e: ({head}: {body})({', '.join(args)}))")
    return out


# ----------------------------------------------------------------------------------------------------------------
# and / or / not used for their VALUE over operands that are not truth values, with constant operands in every position
# (written out, through a called lambda's flag argument, through a constant projection)
def bool_values():
    ints = ["Count(e.jets)", "e.a", "e.a - 1"]
    consts = ["True", "False", "0", "1", "(lambda f: f)(True)", "(True, 0)[0]", "(lambda: False)()"]
    out = []
    for i in ints:
        for c in consts:
            for tpl in ("{i} and {c}", "{c} and {i}", "{i} or {c}", "{c} or {i}", "({i} and {c}, {i} or {c})", "{i} and {c} and {i}",
                        "{i} or {c} or {i}", "not ({i} and {c})", "({i} and {c}) if {i} > 0 else ({i} or {c})"):
                out.append(f"Select(ds, lambda e: {tpl.format(i=i, c=c)})")
        out.append(f"Select(Select(ds, lambda e: ({i}, True)), lambda t: t[0] and t[1])")
        out.append(f"Select(ds, lambda e: (lambda x, flag: x and flag)({i}, True))")
        out.append(f"Select(ds, lambda e: (lambda x, flag: flag or x)({i}, flag=False))")
        out.append(f"Select(ds, lambda e: Select(e.jets, lambda j: j.pt and True))")
    return sorted(set(out))
