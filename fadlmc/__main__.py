import os
import sys


def main():
    args = sys.argv[1:]
    if not args:
        print("usage: python -m fadlmc check <ID> [--tier quick|thorough] [--space NAME ...] | replay <file> | triage <ID>")
        return 2
    os.environ.setdefault("PYTHONHASHSEED", "0")
    from . import core

    cmd = args[0]
    if cmd == "check":
        pid = args[1]
        tier = os.environ.get("VERIF_TIER", "quick")
        spaces = []
        cap = None
        i = 2
        while i < len(args):
            if args[i] == "--tier":
                tier = args[i + 1]; i += 2
            elif args[i] == "--space":
                spaces.append(args[i + 1]); i += 2
            elif args[i] == "--cap":
                cap = float(args[i + 1]); i += 2
            else:
                print("unknown argument", args[i]); return 2
        seed = int(os.environ.get("VERIF_SEED", "0") or 0)
        if cap is None and os.environ.get("FADLMC_TIME_CAP"):
            cap = float(os.environ["FADLMC_TIME_CAP"])
        return core.run_check(pid, tier, seed, only_space=spaces or None, time_cap=cap)
    if cmd == "pairs":
        return core.pairs_worker(*args[1:5])
    if cmd == "seq":
        return core.seq_worker(*args[1:4])
    if cmd == "replay":
        return core.replay(args[1])
    if cmd == "triage":
        from . import triage
        return triage.main(args[1:])
    print("unknown command", cmd)
    return 2


if __name__ == "__main__":
    sys.exit(main())
