"""Slot enumerator for C14 (and a C02/C01 slice): linear chains in which earlier stages package
values into tuples / lists / dicts (nested to depth 2) and later stages take them apart with
constant indices, keys or attribute names only.

A field is (type, source).  Types: 'I' int, 'J' Seq[Jet], 'T' Seq[Trk], 'N' Seq[int],
('P', kind, ((key, field type), ...)) package.  All lambda parameters get distinct names here;
alpha.namings_src then enumerates the naming schemes.
"""
import itertools


class Names:
    def __init__(self):
        self.i = 0

    def fresh(self, p="v"):
        self.i += 1
        return f"{p}{self.i}"


def ev_fields(v, nm, rich):
    "menu of field expressions over an event variable"
    j = nm.fresh("j")
    out = [("I", f"{v}.a"), ("J", f"{v}.jets")]
    if rich:
        j2, j3 = nm.fresh("j"), nm.fresh("j")
        out += [
            ("I", f"{v}.b"),
            ("T", f"SelectMany({v}.jets, lambda {j}: {j}.tr)"),
            ("N", f"Select({v}.jets, lambda {j2}: {j2}.pt)"),
            ("J", f"Where({v}.jets, lambda {j3}: {j3}.pt > 1)"),
        ]
    else:
        out += [("N", f"Select({v}.jets, lambda {j}: {j}.pt)")]
    return out


def jet_fields(v):
    return [("I", f"{v}.pt"), ("T", f"{v}.tr")]


def build_pkg(kind, fields):
    "fields: list of (type, src) -> (ptype, src)"
    keys = [f"k{i}" for i in range(len(fields))]
    if kind == "tup":
        src = "(" + ", ".join(s for _, s in fields) + ("," if len(fields) == 1 else "") + ")"
    elif kind == "lst":
        src = "[" + ", ".join(s for _, s in fields) + "]"
    elif kind == "idic":
        keys = list(range(len(fields)))
        src = "{" + ", ".join(f"{k}: {s}" for k, (_, s) in zip(keys, fields)) + "}"
    else:
        src = "{" + ", ".join(f"'{k}': {s}" for k, (_, s) in zip(keys, fields)) + "}"
    return (("P", kind, tuple(zip(keys, (t for t, _ in fields)))), src)


def projections(ptype, base, style):
    """all full projection paths of a package-typed expression down to non-package leaves.
    style: 0 -> d['k'] for dicts, 1 -> d.k"""
    out = []
    _, kind, fs = ptype
    for i, (k, ft) in enumerate(fs):
        if kind == "idic":
            e = f"{base}[{k}]"
        elif kind == "dic":
            e = f"{base}['{k}']" if style == 0 else f"{base}.{k}"
        else:
            e = f"{base}[{i}]"
        if isinstance(ft, tuple):
            out += projections(ft, e, style)
        else:
            out.append((ft, e))
    return out


ELEM = {"J": ("pt", "Jet"), "T": ("q", "Trk"), "N": (None, "int")}


def consumers(ptype, v, nm, style, rich):
    """stage lambdas over a package-typed parameter v: list of (op, result item type, body src)"""
    pr = projections(ptype, v, style)
    ints = [e for t, e in pr if t == "I"]
    seqs = [(t, e) for t, e in pr if t in ("J", "T", "N")]
    out = []
    for t, e in pr:
        out.append(("Select", t, e))
    for a, b in itertools.permutations(ints, 2):
        out.append(("Select", "I", f"{a} + {b}"))
        out.append(("Where", ptype, f"{a} > {b}"))
    for a in ints:
        out.append(("Where", ptype, f"{a} > 1"))
    for (t, s) in seqs:
        attr, _ = ELEM[t]
        k = nm.fresh("k")
        el = f"{k}.{attr}" if attr else k
        out.append(("SelectMany", {"J": "Jet", "T": "Trk", "N": "I"}[t], s))
        for n in ints[:2] if not rich else ints:
            k2, k3 = nm.fresh("k"), nm.fresh("k")
            el2 = f"{k2}.{attr}" if attr else k2
            el3 = f"{k3}.{attr}" if attr else k3
            out.append(("Select", "N", f"Select({s}, lambda {k}: {el} + {n})"))
            k4 = nm.fresh("k")
            el4 = f"{k4}.{attr}" if attr else k4
            out.append(("Select", "N", f"Select({s}, lambda {k4}: kwfn({el4}, ref={n}))"))
            out.append(("Select", t, f"Where({s}, lambda {k2}: {el2} > {n})"))
            out.append(("SelectMany", "I", f"Select({s}, lambda {k3}: {el3} + {n})"))
    # the package handed WHOLE to a called lambda with a defaulted parameter (given by keyword / left alone)
    qn = nm.fresh("q")
    intsq = [e for t, e in projections(ptype, qn, style) if t == "I"]
    if intsq:
        out.append(("Select", "I", f"(lambda {qn}, s9=1: {intsq[0]} + s9)({v}, s9=2)"))
        out.append(("Select", "I", f"(lambda {qn}, s9=1: {intsq[0]} + s9)({v})"))
        out.append(("Select", "I", f"(lambda s9, {qn}=0: {intsq[0]} + s9)({qn}={v}, s9=2)"))
    # re-packaging: swap the first two leaves into a new package (a result package, or input of stage 3)
    if len(pr) >= 2:
        (t0, e0), (t1, e1) = pr[0], pr[1]
        for kind in ("tup", "dic"):
            pt, src = build_pkg(kind, [(t1, e1), (t0, e0)])
            out.append(("Select", pt, src))
    return out


def leaf_stage(item, v, nm):
    "a final stage over a non-package item"
    if item == "Jet":
        return [("Select", "I", f"{v}.pt"), ("Where", "Jet", f"{v}.pt > 1")]
    if item == "Trk":
        return [("Select", "I", f"{v}.q")]
    if item == "I":
        return [("Select", "I", f"{v} + 1"), ("Where", "I", f"{v} > 1")]
    if item in ("J", "T", "N"):
        attr = ELEM[item][0]
        k = nm.fresh("k")
        el = f"{k}.{attr}" if attr else k
        return [("SelectMany", "x", v), ("Select", "N", f"Select({v}, lambda {k}: {el})")]
    return []


def chains(rich=False, nested=True, three=True):
    """Yield source strings of chains (function form)."""
    seen = set()

    def emit(s):
        if s not in seen:
            seen.add(s)
            return True
        return False

    # ---------------- stage 1 producers over the event stream
    producers = []  # (item type, source of the chain so far)
    extra_chains = []  # complete chains written out in full
    nm = Names()
    e = "e"
    kinds = ("tup", "lst", "dic", "idic")
    F = ev_fields(e, nm, rich)
    for kind in kinds:
        for a, b in itertools.permutations(F, 2):
            pt, src = build_pkg(kind, [a, b])
            producers.append((pt, f"Select(ds, lambda {e}: {src})"))
        for a in F[:2]:
            pt, src = build_pkg(kind, [a])
            producers.append((pt, f"Select(ds, lambda {e}: {src})"))
    if nested:
        F2 = ev_fields(e, nm, False)
        for ko, ki in itertools.product(("tup", "dic"), ("tup", "dic", "lst")):
            for a, b, c in itertools.permutations(F2, 3):
                ipt, isrc = build_pkg(ki, [b, c])
                pt, src = build_pkg(ko, [a, (ipt, isrc)])
                producers.append((pt, f"Select(ds, lambda {e}: {src})"))
                pt, src = build_pkg(ko, [(ipt, isrc), a])
                producers.append((pt, f"Select(ds, lambda {e}: {src})"))
        # a field that is itself First(<sequence of packages>): a two-step projection first meets the written-out outer
        # package and then the packaged First
        for ko, ki in (itertools.product(("tup", "dic"), ("tup", "dic", "lst")) if rich else (("tup", "dic"), ("dic", "tup"))):
            jf = nm.fresh("j")
            ipt, ipkg = build_pkg(ki, [("I", f"{jf}.pt"), ("I", f"{jf}.eta")])
            isrc = f"First(Select({e}.jets, lambda {jf}: {ipkg}))"
            for a in F2[:1]:
                pt, src = build_pkg(ko, [(ipt, isrc), a])
                producers.append((pt, f"Select(ds, lambda {e}: {src})"))
                pt, src = build_pkg(ko, [a, (ipt, isrc)])
                producers.append((pt, f"Select(ds, lambda {e}: {src})"))
    # SelectMany producer: flatten jets paired with an event-level value
    for kind in kinds:
        j = nm.fresh("j")
        for jf in jet_fields(j):
            for ef in F[:1]:
                pt, src = build_pkg(kind, [jf, ef])
                producers.append((pt, f"SelectMany(ds, lambda {e}: Select({e}.jets, lambda {j}: {src}))"))
        pt, src = build_pkg(kind, [("Jet", j), F[0]])
        producers.append((pt, f"SelectMany(ds, lambda {e}: Select({e}.jets, lambda {j}: {src}))"))
        # two consecutive SelectMany stages, the innermost sequence packages
        j4, t4 = nm.fresh("j"), nm.fresh("t")
        pt, src = build_pkg(kind, [("I", f"{t4}.q"), ("I", f"{j4}.pt")])
        producers.append((pt, f"SelectMany(SelectMany(ds, lambda {e}: {e}.jets), lambda {j4}: Select({j4}.tr, lambda {t4}: {src}))"))

    # three SelectMany stages in a row: the middle one packages per item, the last one (the end of the query) unpacks
    for kind in ("tup", "dic", "lst"):
        j7, t7, j8 = nm.fresh("j"), nm.fresh("t"), nm.fresh("j")
        p7, q7 = nm.fresh("p"), nm.fresh("q")
        pt1, src1 = build_pkg(kind, [("Jet", j7), ("Ev", e)])
        pr1 = projections(pt1, p7, 0)
        pt2, src2 = build_pkg(kind, [("Trk", t7), ("Ev", pr1[1][1]), ("Jet", pr1[0][1])])
        pr2 = projections(pt2, q7, 0)
        three = (f"SelectMany(SelectMany(SelectMany(ds, lambda {e}: Select({e}.jets, lambda {j7}: {src1})), "
                 f"lambda {p7}: Select({pr1[0][1]}.tr, lambda {t7}: {src2})), "
                 f"lambda {q7}: Select({pr2[1][1]}.jets, lambda {j8}: {pr2[0][1]}.q + {j8}.pt + {pr2[2][1]}.pt))")
        extra_chains.append(three)
        u7 = nm.fresh("u")
        extra_chains.append(f"Select({three}, lambda {u7}: {u7} + 1)")
    # a stage whose result is First(<sequence of packages>): the later stage's projection has to be moved past
    # the First (subscript and attribute spelling) before the package can be compiled away
    for kind in kinds:
        j5 = nm.fresh("j")
        for jf in jet_fields(j5)[:1] + [("Jet", j5)]:
            pt, src = build_pkg(kind, [jf, F[0]])
            producers.append((pt, f"Select(ds, lambda {e}: First(Select({e}.jets, lambda {j5}: {src})))"))
        pt, src = build_pkg(kind, [("I", f"{j5}.pt"), ("T", f"{j5}.tr")])
        producers.append((pt, f"Select(ds, lambda {e}: First(Select({e}.jets, lambda {j5}: {src})))"))
        # ... of a SelectMany whose body builds the packages
        j6, t6 = nm.fresh("j"), nm.fresh("t")
        pt, src = build_pkg(kind, [("I", f"{t6}.q"), ("I", f"{j6}.pt")])
        producers.append((pt, f"Select(ds, lambda {e}: First(SelectMany({e}.jets, lambda {j6}: Select({j6}.tr, lambda {t6}: {src}))))"))

    # ... and of TWO nested SelectMany levels whose innermost Select builds the packages
    for kind in ("dic", "tup"):
        j9, t9, j10 = nm.fresh("j"), nm.fresh("t"), nm.fresh("j")
        pt, src = build_pkg(kind, [("I", f"{t9}.q"), ("I", f"{j10}.pt")])
        producers.append((pt, f"Select(ds, lambda {e}: First(SelectMany({e}.jets, lambda {j9}: SelectMany({j9}.tr, lambda {t9}: "
                              f"Select({e}.jets, lambda {j10}: {src})))))"))
    for s_ in extra_chains:
        if emit(s_):
            yield s_
    for pt, psrc in producers:
        for style in ((0, 1) if _has_dict(pt) else (0,)):
            t = nm.fresh("t")
            for op, rt, body in consumers(_fix_jet(pt), t, nm, style, rich):
                s2 = f"{op}({psrc}, lambda {t}: {body})"
                if emit(s2):
                    yield s2
                if not three:
                    continue
                u = nm.fresh("u")
                if isinstance(rt, tuple):
                    nxt = consumers(rt, u, nm, style, False)[:10]
                else:
                    nxt = leaf_stage(rt, u, nm)
                for op3, rt3, body3 in nxt:
                    s3 = f"{op3}({s2}, lambda {u}: {body3})"
                    if emit(s3):
                        yield s3


def _has_dict(pt):
    return pt[1] == "dic" or any(isinstance(ft, tuple) and _has_dict(ft) for _, ft in pt[2])


def _fix_jet(pt):
    return pt


def all_sources(tier_quick):
    return list(chains(rich=not tier_quick, nested=True, three=True))


def dupuse():
    """A sequence-valued expression bound to ONE name that is used twice (through a called lambda,
    a previous Select stage, or a packaged field): substitution must give each use its own copy."""
    producers = [
        ("J", "e.jets"), ("N", "Select(e.jets, lambda j: j.pt + 1)"), ("J", "Where(e.jets, lambda j: j.pt > 1)"),
        ("T", "SelectMany(e.jets, lambda j: j.tr)"), ("J", "Select(e.jets, lambda j: j)"),
    ]
    out = []
    for t, p in producers:
        attr = ELEM[t][0]

        def el(v):
            return f"{v}.{attr}" if attr else v

        def cons(s, x=""):
            return [
                f"Where({s}, lambda k{x}: {el('k' + x)} > 1)", f"Select({s}, lambda m{x}: {el('m' + x)} + 1)",
                f"Count({s})", f"Where({s}, lambda n{x}: {el('n' + x)} > 2)",
                f"Select(Where({s}, lambda p{x}: {el('p' + x)} > 0), lambda q{x}: {el('q' + x)})",
            ]
        for wrap in ("app", "chain", "tuple", "appkw"):
            s = {"app": "s", "appkw": "s", "chain": "s", "tuple": "t[0]"}[wrap]
            C, C2 = cons(s), cons(s, "2")
            for a, b in itertools.permutations(range(len(C)), 2):
                body = f"({C[a]}, {C2[b]})"
                if wrap in ("app", "appkw"):
                    call = f"({p})" if wrap == "app" else f"(s={p})"
                    out.append(f"Select(ds, lambda e: (lambda s: {body}){call})")
                elif wrap == "chain":
                    out.append(f"Select(Select(ds, lambda e: {p}), lambda s: {body})")
                else:
                    out.append(f"Select(Select(ds, lambda e: ({p}, e.a)), lambda t: {body})")
    return out
