"""E4 - source-layout enumerator: small module sources assembled from slots, registered in
linecache (what inspect.findsource consults) and exec'd under that pseudo file name."""
import itertools

OPS = ("Select", "Where", "SelectMany", "sel")  # sel = a wrapper method that forwards its argument to Select
PARAMS = ("e", "f")
STYLES = ("one", "brk", "par", "cmt", "str", "nest", "fstr", "coll", "fstr0", "fstr1", "uni", "clo")
# f-strings whose literal pieces are a single, unmatched bracket character (python >= 3.12 tokenizes the pieces separately)
FSTRING_PIECE_STYLES = ("fstr2", "fstr3", "fstr4")


def lam(p, k, op, style):
    """lambda text (may span lines; continuation lines are indented by the caller's INDENT marker '\\t')"""
    cmp_ = " > 1" if op == "Where" else " + 1"
    if style == "one":
        return f"lambda {p}: {p}.m{k}{cmp_}"
    if style == "brk":
        return f"lambda {p}: {p}.m{k}\n\t    {cmp_.strip()}"
    if style == "par":
        return f"lambda {p}: (\n\t    {p}.m{k}\n\t    {cmp_.strip()}\n\t)"
    if style == "cmt":
        return f"lambda {p}: {p}.m{k}{cmp_}  # a comment ) with lambda x: x, and (\n\t"
    if style == "str":
        return f"lambda {p}: {p}.m{k}.s('a)b, lambda z: z('){cmp_}"
    if style == "clo":
        # mentions a variable of the enclosing scope (a closure cell inside a function: the code object then starts
        # with instructions that have no source position)
        return f"lambda {p}: {p}.m{k}.s(KLOC){cmp_}"
    if style == "uni":
        # characters that take several bytes in utf-8 (python counts code columns in bytes, the tokenizer in characters)
        return f"lambda {p}: {p}.m{k}.s('\u00e9\u221a\U0001f600'){cmp_}"
    if style == "fstr":
        return f"lambda {p}: {p}.m{k}.s(f\"({{{p}.x}}),{{{p}.y}}\"){cmp_}"
    if style == "fstr0":
        return f"lambda {p}: {p}.m{k}{cmp_[:3]}f\"({{{p}.x}})\""
    if style == "fstr1":
        return f"lambda {p}: {p}.m{k}{cmp_[:3]}f\"{{{p}.x}},{{{p}.y}}\""
    if style == "fstr2":
        return f"lambda {p}: {p}.m{k}.s(f\"{{{p}.x}}]\"){cmp_}"
    if style == "fstr3":
        return f"lambda {p}: {p}.m{k}.s(f\"({{{p}.x}}\"){cmp_}"
    if style == "fstr4":
        return f"lambda {p}: {p}.m{k}.s(f\"{{{p}.x}}}}}}{{{p}.y}}[\", 1){cmp_}"
    if style == "coll":
        return f"lambda {p}: {p}.m{k}.s([{p}.a, {p}.b], {{'k': {p}.c, 'l': ({p}.d, 1)}})[1, 2]{cmp_}"
    if style == "nest":
        return f"lambda {p}: {p}.m{k}.Select(lambda q: q.n{k}).v{cmp_}"
    raise ValueError(style)


def two_call_statements(c1, c2):
    """c = (op, param, marker, style) -> {shape name: statement text assigning r}; '\\t' marks the block indent"""
    (o1, p1, k1, s1), (o2, p2, k2, s2) = c1, c2
    l1, l2 = lam(p1, k1, o1, s1), lam(p2, k2, o2, s2)
    out = {}
    if s1 != "cmt":
        out["line"] = f"r = ds.{o1}({l1}).{o2}({l2})"
        out["wrap2"] = f"r = ds.{o1}({l1}).{o2}(\n\t    {l2}\n\t)"
        out["funny"] = f"r = ds.{o1}({l1}\n\t    ).{o2}({l2})"
    out["chain"] = f"r = (\n\t    ds.{o1}({l1})\n\t    .{o2}({l2})\n\t)"
    out["wrap"] = f"r = ds.{o1}(\n\t    {l1}\n\t).{o2}(\n\t    {l2}\n\t)"
    out["assign"] = f"q = ds.{o1}({l1})\n\tr = q.{o2}({l2})"
    if s1 != "cmt" and s2 != "cmt":
        # a lambda nested in an enclosing lambda that the user's own code calls (same parameter name / another one)
        out["enclosing"] = f"r = (lambda {p1}: {p1}.{o2}({l2}))(ds.{o1}({l1}))"
        out["enclosing-apply"] = f"r = ds.apply(lambda {p2}: {p2}.{o1}({l1}).{o2}({l2}))"
        out["ifexp"] = f"r = ds.{o1}({l1}) if ds.flag else ds.{o2}({l2})"
        out["tuple"] = f"r = (ds.{o1}({l1}), ds.{o2}({l2}))[1]"
        out["semicolon"] = f"q = ds.{o1}({l1}); r = q.{o2}({l2})"
        out["otherarg"] = f"r = ds.keep({l1}).{o2}({l2})"
    if "clo" in (s1, s2):
        out = {k: "KLOC = 7\n\t" + v for k, v in out.items()}
    return out


CONTEXTS = ("module", "def", "method", "oneline-def", "oneline-def1", "oneline-if", "nested-def", "decorator", "if-block",
            "try-block", "module-eof", "method-tabs", "def-if-tabs")


def in_context(stmt, ctx):
    """wrap a statement block (with '\\t' indent markers and a final assignment to r) into a module
    source that leaves the result in the module global RESULT"""
    def ind(n):
        return stmt.replace("\t", " " * n)
    if ctx == "module":
        return ind(0) + "\nRESULT = r\n"
    if ctx == "method-tabs":  # indented with TAB characters, two levels deep
        return "class K:\n\tdef build(self):\n\t\t" + stmt.replace("\t", "\t\t") + "\n\t\treturn r\nRESULT = K().build()\n"
    if ctx == "def-if-tabs":
        return "def build():\n\tif True:\n\t\t" + stmt.replace("\t", "\t\t") + "\n\treturn r\nRESULT = build()\n"
    if ctx == "if-block":  # indented, but not inside a function or class
        return "if True:\n    " + ind(4) + "\nRESULT = r\n"
    if ctx == "try-block":
        return "try:\n    " + ind(4) + "\nfinally:\n    pass\nRESULT = r\n"
    if ctx == "module-eof":  # the statement ends the file: no line after it, no final newline
        return ind(0)
    if ctx == "def":
        return "def build():\n    " + ind(4) + "\n    return r\nRESULT = build()\n"
    if ctx == "method":
        return "class K:\n    def build(self):\n        " + ind(8) + "\n        return r\nRESULT = K().build()\n"
    if ctx == "nested-def":
        return ("def outer():\n    def inner():\n        " + ind(8) + "\n        return r\n    return inner()\n"
                "RESULT = outer()\n")
    if ctx in ("nested-def-namesake-below", "nested-def-namesake-above"):
        # the functions passed by name are nested two deep; the module defines functions of the same names (other bodies)
        others = "def f1(q): return q.zz8 + 5\ndef f2(q): return q.zz9 > 5\n"
        body = "def outer():\n    def inner():\n        " + ind(8) + "\n        return r\n    return inner()\n"
        return (body + others if ctx.endswith("below") else others + body) + "RESULT = outer()\n"
    if ctx == "method-namesake-below":
        others = "def f1(q): return q.zz8 + 5\ndef f2(q): return q.zz9 > 5\n"
        return "class K:\n    def build(self):\n        " + ind(8) + "\n        return r\n" + others + "RESULT = K().build()\n"
    if ctx == "oneline-def":
        if "\n" in stmt or not stmt.startswith("r = "):
            return None
        return "def build(): return " + stmt[4:] + "\nRESULT = build()\n"
    if ctx == "oneline-def1":
        if "\n" in stmt or not stmt.startswith("r = "):
            return None
        return "def build(ds): return " + stmt[4:] + "\nRESULT = build(ds)\n"
    if ctx == "oneline-if":
        if "\n" in stmt:
            return None
        return "if True: " + stmt + "\nRESULT = r\n"
    if ctx == "decorator":
        if not stmt.startswith("r = ") or "\n\tr = " in stmt or ";" in stmt:
            return None
        return "def deco(x):\n    return lambda fn: x\n@deco(" + ind(0)[4:] + ")\ndef RESULT(): pass\n"
    raise ValueError(ctx)


def enumerate_two_calls(ops, params, styles, contexts, shapes=None):
    out = []
    k = itertools.count(1)
    for o1, o2 in itertools.product(ops, repeat=2):
        for p1, p2 in itertools.product(params, repeat=2):
            for s1, s2 in itertools.product(styles, repeat=2):
                c1, c2 = (o1, p1, 1, s1), (o2, p2, 2, s2)
                for shape, stmt in two_call_statements(c1, c2).items():
                    if shapes and shape not in shapes:
                        continue
                    for ctx in contexts:
                        src = in_context(stmt, ctx)
                        if src is not None:
                            out.append((src, (shape, ctx, c1, c2)))
    return out


def enumerate_three_calls(ops, params, contexts):
    out = []
    for o in itertools.product(ops, repeat=3):
        for p in itertools.product(params, repeat=3):
            ls = [lam(p[i], i + 1, o[i], "one") for i in range(3)]
            stmts = {
                "line3": f"r = ds.{o[0]}({ls[0]}).{o[1]}({ls[1]}).{o[2]}({ls[2]})",
                "chain3": f"r = (\n\t    ds.{o[0]}({ls[0]})\n\t    .{o[1]}({ls[1]})\n\t    .{o[2]}({ls[2]})\n\t)",
                "mixed3": f"r = ds.{o[0]}({ls[0]}).{o[1]}({ls[1]}).{o[2]}(\n\t    {ls[2]}\n\t)",
            }
            for shape, stmt in stmts.items():
                for ctx in contexts:
                    src = in_context(stmt, ctx)
                    if src is not None:
                        out.append((src, (shape, ctx, tuple((o[i], p[i], i + 1, "one") for i in range(3)))))
    return out


def enumerate_named_functions(contexts=("module", "def", "method", "if-block", "try-block", "module-eof", "nested-def-namesake-below",
                                        "nested-def-namesake-above", "method-namesake-below")):
    """one-line / two-line / documented defs passed BY NAME, with neighbours that could be confused with them"""
    out = []
    forms = {
        "def1": "def {n}({p}): return {p}.m{k}{c}",
        "def2": "def {n}({p}):\n\t    return {p}.m{k}{c}",
        "defdoc": "def {n}({p}):\n\t    'a doc string with lambda z: z and )'\n\t    return {p}.m{k}{c}",
        "defcmt": "def {n}({p}):  # lambda q: q.n9 )\n\t    return {p}.m{k}{c}",
        "lam": "{n} = lambda {p}: {p}.m{k}{c}",
        # a decorated function is not the function it wraps (functools.wraps makes inspect follow __wrapped__)
        "wrapped": "def {n}_inner({p}): return {p}.m{k}\n\t@__import__('functools').wraps({n}_inner)\n\tdef {n}({p}): return {n}_inner({p}).w{k}{c}",
        # a multi-line string whose continuation lines are indented less than the def (they are data, not code)
        "defstr": "def {n}({p}):\n\t    return {p}.m{k}.s(\"\"\"a\n  bcdefghijkl\nxyzuvwrstq\"\"\"){c}",
    }
    calls = {
        "one": "r = ds.{o1}(f1)",
        "two": "r = ds.{o1}(f1).{o2}(f2)",
        "mixed": "r = ds.{o1}(f1).{o2}(lambda {p2}: {p2}.m3{c2})",
        "mixed-rev": "r = ds.{o1}(lambda {p1}: {p1}.m3{c1}).{o2}(f2)",
        "two-lines": "q = ds.{o1}(f1)\n\tr = q.{o2}(f2)",
    }
    for f1 in forms:
        for f2 in forms:
            for (o1, o2) in (("Select", "Select"), ("Select", "Where"), ("Where", "SelectMany"), ("sel", "Select")):
                for (p1, p2) in (("e", "e"), ("e", "f")):
                    c1 = " > 1" if o1 == "Where" else " + 1"
                    c2 = " > 1" if o2 == "Where" else " + 1"
                    d1 = forms[f1].format(n="f1", p=p1, k=1, c=c1)
                    d2 = forms[f2].format(n="f2", p=p2, k=2, c=c2)
                    for cname, call in calls.items():
                        if "lam" in (f1, f2) and cname in ("mixed", "mixed-rev", "two", "one", "two-lines"):
                            # a lambda bound to a name and passed by name is NOT written in the call: recovery is
                            # allowed to refuse, never to record something else (checked by the same oracle)
                            pass
                        stmt = d1 + "\n\t" + d2 + "\n\t" + call.format(o1=o1, o2=o2, p1=p1, p2=p2, c1=c1, c2=c2)
                        for ctx in contexts:
                            src = in_context(stmt, ctx)
                            if src is not None:
                                out.append((src, ("named:" + cname + ":" + f1 + ":" + f2, ctx,
                                                  (o1, p1, 1, f1), (o2, p2, 2, f2))))
    return out


# identifiers that are fragments of the word "lambda" (a scanner that tests `name in "lambda"` takes them for it)
FRAGMENTS = ("a", "b", "d", "l", "m", "la", "am", "mb", "bd", "da", "lam", "amb", "bda", "lamb", "mbda", "ambda", "lambd")


def enumerate_one_call_with_neighbours(ops=OPS[:3], params=PARAMS, styles=("one", "str", "nest")):
    """ONE lambda per line (the documented base case) with other code on the same line: names before / after the
    call that are fragments of the word lambda, in a conditional expression, a tuple, a second statement"""
    out = []
    for op in ops:
        for p in params:
            for st in styles:
                body = lam(p, 1, op, st)
                for nm in FRAGMENTS:
                    stmts = {
                        "cond-after": f"{nm} = 1\n\tr = ds.{op}({body}) if {nm} else None",
                        "cond-before": f"{nm} = 0\n\tr = None if {nm} else ds.{op}({body})",
                        "tuple-after": f"{nm} = 1\n\tr = (ds.{op}({body}), {nm}, {nm})[0]",
                        "tuple-before": f"{nm} = 1\n\tr = ({nm}, ds.{op}({body}))[1]",
                        "stmt-after": f"q = ds.{op}({body}); {nm} = q; r = {nm}",
                        "stmt-before": f"{nm} = ds; r = {nm}.{op}({body})",
                        "attr-after": f"r = ds.{op}({body}).keep({p!r}).{nm}(1)",
                        "nonascii-before": f"{nm} = '\u00e9\u221a\U0001f600'; r = ds.{op}({body})",
                        "nonascii-arg": f"r = ds.keep('\u00fc\u00fc {nm}').{op}({body})",
                        "nonascii-long": f"r = ds.keep('{nm} " + "\u221a\U0001f600" * 12 + f"').{op}({body})",
                    }
                    for shape, stmt in stmts.items():
                        for ctx in ("module", "def", "method", "if-block", "module-eof"):
                            src = in_context(stmt, ctx)
                            if src is not None:
                                out.append((src, (f"one:{shape}", ctx, (op, p, 1, st), nm)))
    return out


def enumerate_closure_reuse():
    """the same lambda text executed several times with different captured values (loop, helper function,
    comprehension): every call must record the lambda with the values it has at THAT call"""
    out = []
    for op, cmp_ in (("Select", " + "), ("Where", " > ")):
        for p in PARAMS:
            body = f"{p}.m1{cmp_}c"
            stmts = {
                "loop": f"for c in (1, 2, 3):\n\t    r = ds.{op}(lambda {p}: {body})",
                "helper": f"def mk(c):\n\t    return ds.{op}(lambda {p}: {body})\n\tr = [mk(1), mk(2), mk(1)][-1]",
                "listcomp": f"r = [ds.{op}(lambda {p}: {body}) for c in (1, 2)][-1]",
                "default-arg": f"def mk(c, d=5):\n\t    return ds.{op}(lambda {p}: {body}{cmp_}d)\n\tr = [mk(1), mk(2, 7)][-1]",
                "two-sites": f"def mk(c):\n\t    return ds.{op}(lambda {p}: {body}).{op}(\n\t        lambda {p}2: {p}2.m2{cmp_}c)\n\tr = [mk(1), mk(2)][-1]",
            }
            for shape, stmt in stmts.items():
                for ctx in ("module", "def", "method"):
                    src = in_context(stmt, ctx)
                    if src is not None:
                        out.append((src, ("closure:" + shape, ctx, (op, p, 1, "one"))))
    return out
