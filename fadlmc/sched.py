"""E6 - every interleaving of concurrently awaited value_async() calls, driven by hand.

The harness executor logs its call and awaits a Gate; the scheduler explores every sequence of
actions {start coroutine i, resolve the gate of a started coroutine with a result, resolve it
with an exception} by depth-first re-execution from a choice prefix on fresh objects."""


class Gate:
    def __init__(self):
        self.done = False
        self.val = None
        self.exc = None

    def __await__(self):
        while not self.done:
            yield self
        if self.exc is not None:
            raise self.exc
        return self.val


class Boom(Exception):
    pass


def run_schedule(make, schedule):
    """make() -> (coroutines, log) on fresh objects; log entries are dicts with key 'gate'.
    schedule: sequence of ('start', i) / ('ok', i) / ('err', i).
    Returns (observations, enabled actions afterwards)."""
    cors, log, info = make()
    started, finished = {}, {}
    obs = []
    for act, i in schedule:
        if act == "start":
            n0 = len(log)
            try:
                cors[i].send(None)
                obs.append(("started", i, len(log) - n0))
                if len(log) == n0 + 1:
                    started[i] = log[-1]["gate"]
                else:
                    started[i] = None
            except StopIteration as e:
                obs.append(("finished-at-start", i, repr(e.value)))
                finished[i] = ("ret", e.value)
                started[i] = None
            except Exception as e:  # noqa
                obs.append(("raised-at-start", i, type(e).__name__))
                finished[i] = ("exc", e)
                started[i] = None
        else:
            g = started[i]
            g.done = True
            if act == "ok":
                g.val = ("result", i, len(obs))
            elif act == "errT":
                g.exc = TypeError(("boom", i, len(obs)))
            else:
                g.exc = Boom(("boom", i, len(obs)))
            n0 = len(log)
            try:
                cors[i].send(None)
                obs.append(("still-pending", i))
            except StopIteration as e:
                finished[i] = ("ret", e.value)
                obs.append(("returned", i, e.value == g.val, len(log) - n0))
            except (Boom, TypeError) as e:
                finished[i] = ("exc", e)
                obs.append(("raised", i, e is g.exc, len(log) - n0))
            except Exception as e:  # noqa
                finished[i] = ("exc", e)
                obs.append(("raised-other", i, type(e).__name__))
    enabled = [("start", i) for i in range(len(cors)) if i not in started]
    for i, g in started.items():
        if i not in finished and g is not None and not g.done:
            enabled += [("ok", i), ("err", i), ("errT", i)]
    for c in cors:
        c.close()
    return obs, enabled, log, info, finished


def all_schedules(make, on_complete):
    """DFS over every maximal schedule; on_complete(schedule, obs, log, info, finished)."""
    n = [0]

    def dfs(prefix):
        obs, enabled, log, info, finished = run_schedule(make, prefix)
        if not enabled:
            n[0] += 1
            on_complete(tuple(prefix), obs, log, info, finished)
            return
        for a in enabled:
            dfs(prefix + [a])

    dfs([])
    return n[0]
