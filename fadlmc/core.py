"""Runner: enumerate the bounded spaces of a check, run every member on the real code in a
pool of long-lived workers, merge the results deterministically, match violations against
known_findings.json, confirm new ones in a fresh process, write evidence and replay files.

Exit codes: 0 property held on everything explored (known findings are announced),
            1 at least one violation not listed in known_findings.json,
            2 harness error (vacuity self-test failed, replay disagreed, ...).
"""
import hashlib
import importlib
import json
import multiprocessing as mp
import os
import random
import subprocess
import sys
import time
import traceback
from collections import Counter

from . import bind

VERIF = os.path.dirname(os.path.dirname(os.path.abspath(__file__)))
NPROC = int(os.environ.get("FADLMC_JOBS", str(min(16, os.cpu_count() or 1))))


class Space:
    """A finite, completely enumerated set of cases."""

    def __init__(self, name, bounds, cases, runner=None):
        self.name = name
        self.bounds = bounds  # dict, free text values: what is enumerated, to which bound
        self.cases = cases  # list of picklable payloads, or a callable returning it (lazy)
        self.runner = runner  # optional name of the check method to run a case


class Check:
    pid = "C00"
    title = ""
    rule = ""  # how cases are enumerated and what makes one non-trivial
    assumptions = []
    min_outcomes = 2  # vacuity: at least this many distinct outcome classes must be seen
    state_based = False  # True: evidence uses states/transitions keys

    def spaces(self, tier):
        raise NotImplementedError

    def run(self, space_name, payload):
        """Run one case on the real code.  Returns a dict:
        n: executions performed, nt: list of canonical strings of non-trivial sub-cases,
        oc: list of outcome-class strings, tags: {str: int}, viol: [ {kind, canon, msg} ],
        states: iterable of state hashes (state based), trans: int."""
        raise NotImplementedError

    def render(self, space_name, payload):
        return payload if isinstance(payload, str) else repr(payload)

    def standalone(self, space_name, payload, viol):
        return None

    def pair_menu(self, tier):
        """Optional: a small list of (space_name, runner_name, payload) representative cases.  The
        runner then explores every ORDERED PAIR (A, B): A and B are run one after the other in the
        same process and B must still hold - this decides state that leaks from one query to the
        next (caches, interned nodes, registries).  Histories of length 2 over the menu."""
        return None

    def finalize(self, agg):
        """Cross-case oracle over agg['custom'] = [(space, payload, custom)]: returns violations
        (dicts with kind, canon, msg, space, payload)."""
        return []

    def selftest(self, agg):
        """Return a list of harness-level vacuity complaints (strings)."""
        return []


def vkey(pid, canon, kind):
    return hashlib.sha1(f"{pid}|{canon}|{kind}".encode()).hexdigest()[:16]


def h64(s):
    return hashlib.blake2b(s.encode() if isinstance(s, str) else s, digest_size=8).digest()


def load_check(pid):
    bind.bind()
    mod = importlib.import_module(f"fadlmc.checks.{pid.lower()}")
    return mod.CHECK


_CHECK = None


_CHUNK_SEQ = [0]


def _run_chunk(arg):
    cid, space_name, runner, payloads = arg
    _CHUNK_SEQ[0] += 1
    out = []
    for p in payloads:
        bind.reset_globals()
        try:
            if runner == "_pair":
                r = _run_pair(p)
            else:
                fn = getattr(_CHECK, runner) if runner else None
                r = fn(p) if fn else _CHECK.run(space_name, p)
        except BaseException as e:  # a crash of the harness itself: never a verdict
            r = {"harness_error": f"{type(e).__name__}: {e}\n{traceback.format_exc()}",
                 "payload": _safe_render(space_name, p)}
        out.append((p, r))
    # which long-lived worker ran this chunk, and as its how-manieth: lets the parent reconstruct the exact sequence
    # of cases a worker had executed before a violating one (histories of queries in ONE process)
    return space_name, out, (cid, os.getpid(), _CHUNK_SEQ[0])


def _run_one(entry):
    space_name, runner, payload = entry
    fn = getattr(_CHECK, runner) if runner else None
    return fn(payload) if fn else _CHECK.run(space_name, payload)


def _run_pair(p):
    i, j = p
    menu = _CHECK._menu
    a = _safe_render(menu[i][0], menu[i][2])
    ra = _run_one(menu[i])  # A runs first in a pristine process: library state in its initial condition
    r = _run_one(menu[j])  # B, in the state A left behind
    r = dict(r)
    r["viol"] = [dict(v, canon=f"after[{a}]|{v['canon']}", kind="after-another-query:" + v["kind"])
                 for v in r.get("viol", ())]
    if i == j:
        # report A's own violations once (on the diagonal): they are what a fresh process sees first
        r["viol"] = [dict(v, canon=f"first-in-process|{v['canon']}", kind="first-in-process:" + v["kind"])
                     for v in ra.get("viol", ())] + r["viol"]
    r["nt"] = [f"after[{a}]|{c}" for c in r.get("nt", ())][:3]
    r["sample_text"] = f"A = {a} ; then B = {_safe_render(menu[j][0], menu[j][2])}"
    r.pop("custom", None)
    r.pop("states", None)
    return r


def _safe_render(space_name, p):
    try:
        return _CHECK.render(space_name, p)
    except Exception:
        return repr(p)[:500]


def load_findings():
    path = os.environ.get("FADLMC_FINDINGS", os.path.join(VERIF, "known_findings.json"))
    if not os.path.exists(path):
        return []
    with open(path) as f:
        fs = json.load(f).get("findings", [])
    for f_ in fs:
        kf = f_.get("keys_file")
        if kf:
            with open(os.path.join(VERIF, kf)) as fh:
                f_["keys"] = list(f_.get("keys", [])) + [ln.split()[0] for ln in fh if ln.strip() and not ln.startswith("#")]
    return fs


def run_check(pid, tier, seed, only_space=None, collect=False, time_cap=None):
    global _CHECK
    t0 = time.time()
    check = load_check(pid)
    _CHECK = check
    spaces = check.spaces(tier)
    menu = check.pair_menu(tier)
    if menu:
        check._menu = menu
        spaces.append(Space("histories-of-2", {"menu": len(menu), "pairs": len(menu) ** 2,
                                               "oracle": "B after A must behave like B alone"},
                            [(i, j) for i in range(len(menu)) for j in range(len(menu))], runner="_pair"))
    if only_space:
        spaces = [s for s in spaces if s.name in only_space]
    pair_space = [s for s in spaces if s.name == "histories-of-2"]
    spaces = [s for s in spaces if s.name != "histories-of-2"]
    rng = random.Random(seed)

    work = []
    space_info = {}
    for s in spaces:
        cases = list(s.cases() if callable(s.cases) else s.cases)
        space_info[s.name] = {"bounds": s.bounds, "cases": len(cases)}
        if not cases:
            continue
        csize = max(1, min(400, len(cases) // (NPROC * 6) or 1))
        for i in range(0, len(cases), csize):
            work.append((s.name, s.runner, cases[i:i + csize]))
    rng.shuffle(work)  # the seed permutes the order of work only, never its membership
    work = [(cid,) + w for cid, w in enumerate(work)]

    agg = {
        "n": 0, "cases": 0, "nt": set(), "oc": Counter(), "tags": Counter(), "viol": [],
        "states": set(), "trans": 0, "harness_errors": [], "samples": {}, "extra": {}, "custom": [],
        "chunks": {}, "work": {w[0]: w for w in work},
    }
    capped = False

    def merge(space_name, results, chunk=None):
        if chunk is not None:
            agg["chunks"][chunk[0]] = (chunk[1], chunk[2])
        for ci, (p, r) in enumerate(results):
            agg["cases"] += 1
            if "harness_error" in r:
                agg["harness_errors"].append(r)
                continue
            agg["n"] += r.get("n", 1)
            for c in r.get("nt", ()):
                agg["nt"].add(h64(c))
            for o in r.get("oc", ()):
                agg["oc"][o] += 1
            for k, v in r.get("tags", {}).items():
                agg["tags"][k] += v
            for st in r.get("states", ()):
                agg["states"].add(st)
            agg["trans"] += r.get("trans", 0)
            if "custom" in r:
                agg["custom"].append((space_name, p, r["custom"]))
            for k, v in r.get("extra", {}).items():
                agg["extra"].setdefault(k, Counter())[v] += 1
            for v in r.get("viol", ()):
                v = dict(v)
                v["space"] = space_name
                v["payload"] = p
                if chunk is not None:
                    v["_at"] = (chunk[0], ci)
                agg["viol"].append(v)
            sm = agg["samples"].setdefault(space_name, [])
            if len(sm) < 3 and r.get("sample", True):
                sm.append(r.get("sample_text") or _safe_render(space_name, p))

    if NPROC > 1 and len(work) > 1:
        ctx = mp.get_context("fork")
        with ctx.Pool(NPROC) as pool:
            for space_name, results, chunk in pool.imap_unordered(_run_chunk, work):
                merge(space_name, results, chunk)
                if time_cap and time.time() - t0 > time_cap:
                    capped = True
                    pool.terminate()
                    break
    else:
        for w in work:
            space_name, results, chunk = _run_chunk(w)
            merge(space_name, results, chunk)
            if time_cap and time.time() - t0 > time_cap:
                capped = True
                break

    if pair_space:
        pairs = list(pair_space[0].cases)
        space_info["histories-of-2"] = {"bounds": pair_space[0].bounds, "cases": len(pairs)}
        rng.shuffle(pairs)
        for results in _run_pairs_in_fresh_processes(pid, tier, pairs):
            merge("histories-of-2", results)

    if collect:
        return check, agg, space_info

    return finish(check, tier, seed, agg, space_info, capped, t0)


def _run_pairs_in_fresh_processes(pid, tier, pairs):
    """Each batch of pairs goes to a freshly started interpreter that has never run a query; inside
    it every pair runs in its own forked child, so no pair sees state left by another one."""
    import pickle
    import tempfile

    nb = max(1, min(NPROC, len(pairs) // 8 or 1))
    batches = [pairs[i::nb] for i in range(nb)]
    procs = []
    with tempfile.TemporaryDirectory(prefix="fadlmc_pairs_") as td:
        for i, b in enumerate(batches):
            inp, outp = os.path.join(td, f"in{i}.pkl"), os.path.join(td, f"out{i}.pkl")
            with open(inp, "wb") as f:
                pickle.dump(b, f)
            procs.append((subprocess.Popen([sys.executable, "-m", "fadlmc", "pairs", pid, tier, inp, outp], cwd=VERIF),
                          outp))
        for pr, outp in procs:
            rc = pr.wait()
            if rc != 0 or not os.path.exists(outp):
                raise RuntimeError(f"pair worker failed rc={rc}")
            with open(outp, "rb") as f:
                yield pickle.load(f)


def pairs_worker(pid, tier, inp, outp):
    import pickle

    global _CHECK
    check = load_check(pid)
    _CHECK = check
    check._menu = check.pair_menu(tier)
    with open(inp, "rb") as f:
        pairs = pickle.load(f)
    out = []
    for p in pairs:
        r, w = os.pipe()
        child = os.fork()
        if child == 0:
            os.close(r)
            try:
                bind.reset_globals()
                res = _run_pair(p)
                res = {k: (list(v) if isinstance(v, set) else v) for k, v in res.items()}
            except BaseException as e:
                res = {"harness_error": f"{type(e).__name__}: {e}\n{traceback.format_exc()}", "payload": repr(p)}
            with os.fdopen(w, "wb") as f:
                pickle.dump(res, f)
            os._exit(0)
        os.close(w)
        with os.fdopen(r, "rb") as f:
            data = f.read()
        os.waitpid(child, 0)
        out.append((p, pickle.loads(data)))
    with open(outp, "wb") as f:
        pickle.dump(out, f)
    return 0


def _worker_history(agg, at):
    "the cases the worker that ran chunk at[0] had executed, in order, up to and including case at[1] of that chunk"
    cid, ci = at
    wpid, seq = agg["chunks"][cid]
    mine = sorted((sq, c) for c, (p, sq) in agg["chunks"].items() if p == wpid and sq <= seq)
    hist = []
    for sq, c in mine:
        _, space, runner, payloads = agg["work"][c]
        for pl in (payloads if c != cid else payloads[:ci + 1]):
            hist.append((space, runner, pl))
    return hist


def _run_sequences(pid, key, sequences):
    "in ONE freshly started interpreter, each sequence in its own forked child: does the last case show violation `key`?"
    import pickle
    import tempfile

    with tempfile.TemporaryDirectory(prefix="fadlmc_seq_") as td:
        inp, outp = os.path.join(td, "in.pkl"), os.path.join(td, "out.pkl")
        with open(inp, "wb") as f:
            pickle.dump({"key": key, "sequences": sequences}, f)
        pr = subprocess.run([sys.executable, "-m", "fadlmc", "seq", pid, inp, outp], cwd=VERIF, capture_output=True, text=True)
        if pr.returncode != 0 or not os.path.exists(outp):
            sys.stderr.write(f"sequence worker failed rc={pr.returncode}\n{pr.stderr[-500:]}\n")
            return [False] * len(sequences)
        with open(outp, "rb") as f:
            return pickle.load(f)


def seq_worker(pid, inp, outp):
    import pickle

    global _CHECK
    check = load_check(pid)
    _CHECK = check
    with open(inp, "rb") as f:
        job = pickle.load(f)
    out = []
    for seq in job["sequences"]:
        r, w = os.pipe()
        child = os.fork()
        if child == 0:
            os.close(r)
            ok = False
            try:
                ok = _run_sequence(check, seq, job["key"])
            except BaseException:
                ok = False
            os.write(w, b"1" if ok else b"0")
            os._exit(0)
        os.close(w)
        data = os.read(r, 1)
        os.close(r)
        os.waitpid(child, 0)
        out.append(data == b"1")
    with open(outp, "wb") as f:
        pickle.dump(out, f)
    return 0


def _run_sequence(check, seq, key):
    res = None
    for space_name, runner, payload in seq:
        bind.reset_globals()
        try:
            fn = getattr(check, runner) if runner else None
            res = fn(payload) if fn else check.run(space_name, payload)
        except BaseException:
            res = None
    return bool(res) and any(vkey(check.pid, v["canon"], v["kind"]) == key for v in res.get("viol", ()))


def _confirm_history(check, agg, v, key):
    """Reproduce `v` (found in a worker, not reproducible alone) as the end of the sequence of cases that worker had run,
    then cut the sequence down: to one earlier case + the violating one if some pair suffices, else to a short suffix."""
    hist = _worker_history(agg, v["_at"])
    if len(hist) < 2:
        return None
    hist = [(sp, rn, pl) for sp, rn, pl in hist]
    last = hist[-1]
    if not _run_sequences(check.pid, key, [hist])[0]:
        return None
    earlier = hist[:-1]
    cand = earlier[::-1][:600]
    got = _run_sequences(check.pid, key, [[a, last] for a in cand])
    for a, ok in zip(cand, got):
        if ok:
            return [a, last]
    n = 2
    while n < len(hist):
        if _run_sequences(check.pid, key, [hist[-n:]])[0]:
            return hist[-n:]
        n *= 2
    return hist


def _history_identity(check, seq, v):
    if len(seq) == 2:
        canon = f"after[{_safe_render(seq[0][0], seq[0][2])}]|{v['canon']}"
    else:
        canon = f"after[{len(seq) - 1} earlier cases of the same worker]|{v['canon']}"
    kind = "after-earlier-queries-in-one-process:" + v["kind"]
    return vkey(check.pid, canon, kind), kind, canon


def finish(check, tier, seed, agg, space_info, capped, t0):
    pid = check.pid
    findings = [f for f in load_findings() if f.get("property") == pid]
    known = {}
    for f in findings:
        if f.get("status") == "known":
            for k in f.get("keys", []):
                known[k] = f

    # ---- harness errors first: a broken harness reports nothing as a verdict
    if agg["harness_errors"]:
        for e in agg["harness_errors"][:3]:
            sys.stderr.write("HARNESS ERROR in case %s\n%s\n" % (e.get("payload"), e["harness_error"]))
        write_evidence(check, tier, seed, agg, space_info, capped, t0, 0, {}, note="harness error")
        return 2

    # ---- cross-case oracle (e.g. grouping all cases by hash)
    for v in check.finalize(agg):
        agg["viol"].append(v)

    # ---- classify violations
    hit = Counter()
    new = {}
    # violations of the explicit two-query histories first: they replay in a fresh process even when the
    # cause is state leaking between queries (which also shows up, unreproducibly, in the ordinary spaces)
    for v in sorted(agg["viol"], key=lambda v: (v["space"] != "histories-of-2", len(v["canon"]), v["canon"], v["kind"])):
        k = vkey(pid, v["canon"], v["kind"])
        if k in known:
            hit[known[k]["id"]] += 1
        else:
            new.setdefault(k, v)

    for f in findings:
        if f.get("status") == "known" and hit.get(f["id"]):
            print(f"KNOWN-FINDING: property={pid} {f['id']}: {f['what']} "
                  f"[{hit[f['id']]} listed failing input(s) reproduced in this run]")

    rc = 0
    if new:
        rdir = os.path.join(os.environ.get("FADLMC_REPLAY_DIR", os.path.join(VERIF, "replays")), pid)
        os.makedirs(rdir, exist_ok=True)
        shown = 0
        confirmed = os.environ.get("FADLMC_NO_CONFIRM") == "1"
        tried = 0
        # candidates for confirmation: interleave the spaces (a violation caused by state leaking between
        # unrelated cases of one worker does not reproduce alone; one from a history space does)
        by_space = {}
        for k, v in new.items():
            by_space.setdefault(v["space"], []).append((k, v))
        order = []
        for i in range(max(len(x) for x in by_space.values())):
            for sp in by_space:
                if i < len(by_space[sp]):
                    order.append(by_space[sp][i])
        for k, v in order:
            if shown >= 8:
                break
            path = os.path.join(rdir, f"{k}.json")
            rep = {
                "property": pid, "key": k, "space": v["space"], "payload": v["payload"],
                "kind": v["kind"], "canon": v["canon"], "message": v.get("msg", ""),
                "rendered": _safe_render(v["space"], v["payload"]) if v["space"] != "histories-of-2" else v["canon"],
                "standalone": check.standalone(v["space"], v["payload"], v) if v["space"] != "histories-of-2" else None,
            }
            with open(path, "w") as f:
                json.dump(rep, f, indent=1, default=repr)
            if not confirmed:
                # confirm in a fresh process before trusting the failure
                tried += 1
                pr = subprocess.run([sys.executable, "-m", "fadlmc", "replay", path],
                                    cwd=VERIF, capture_output=True, text=True)
                if pr.returncode == 1:
                    confirmed = True
                elif tried >= 12:
                    os.remove(path)
                    break
                else:
                    os.remove(path)
                    continue
            print(f"VIOLATION property={pid} replay={path}")
            print(f"   kind={v['kind']} case={rep['rendered'][:300]!r} :: {str(v.get('msg',''))[:300]}")
            shown += 1
        if not shown:
            # None of the candidates fails when it is the FIRST thing a process does.  Then the cause may be state
            # the library carried over from cases the same worker ran earlier: replay that worker's exact sequence
            # of cases in a fresh process (a history of queries in one process) and cut it down.
            for k, v in order[:3]:
                if "_at" not in v:
                    continue
                seq = _confirm_history(check, agg, v, k)
                if seq is None:
                    continue
                hk, hkind, hcanon = _history_identity(check, seq, v)
                if hk in known:
                    hit[known[hk]["id"]] += 1
                    print(f"KNOWN-FINDING: property={pid} {known[hk]['id']}: {known[hk]['what']}")
                    shown = -1
                    break
                path = os.path.join(rdir, f"{hk}.json")
                with open(path, "w") as f:
                    json.dump({"property": pid, "key": hk, "inner_key": k, "space": "history-in-one-process",
                               "payload": [list(c) for c in seq], "kind": hkind, "canon": hcanon,
                               "message": v.get("msg", ""), "rendered": hcanon, "standalone": None}, f, indent=1, default=repr)
                pr = subprocess.run([sys.executable, "-m", "fadlmc", "replay", path], cwd=VERIF, capture_output=True, text=True)
                if pr.returncode != 1:
                    continue
                print(f"VIOLATION property={pid} replay={path}")
                print(f"   kind={hkind} history of {len(seq)} cases in one process, last = {_safe_render(v['space'], v['payload'])[:200]!r} :: {str(v.get('msg',''))[:300]}")
                shown += 1
                break
            if shown == -1:
                shown, new = 0, {}
        if new and not shown:
            sys.stderr.write("HARNESS ERROR: no violation could be confirmed in a fresh process\n")
            write_evidence(check, tier, seed, agg, space_info, capped, t0, len(new), hit, note="replay disagreement")
            return 2
        if len(new) > shown:
            print(f"   ... and {len(new) - shown} further distinct violating inputs (replays not written)")
        rc = 1 if new else 0

    complaints = check.selftest(agg)
    if len(agg["oc"]) < check.min_outcomes:
        complaints.append(f"only {len(agg['oc'])} distinct outcome classes observed")
    if agg["cases"] == 0:
        complaints.append("empty space")
    write_evidence(check, tier, seed, agg, space_info, capped, t0, len(new), hit,
                   note="; ".join(complaints) if complaints else None)
    if complaints and rc == 0:
        sys.stderr.write("HARNESS ERROR (vacuity self-test): " + "; ".join(complaints) + "\n")
        return 2
    el = time.time() - t0
    print(f"{pid} {tier}: cases={agg['cases']} executions={agg['n']} nontrivial={len(agg['nt'])} "
          f"outcomes={len(agg['oc'])} violations_new={len(new)} known_hit={sum(hit.values())} "
          f"wall={el:.1f}s{' CAPPED' if capped else ''}")
    return rc


def write_evidence(check, tier, seed, agg, space_info, capped, t0, n_new, hit, note=None):
    pid = check.pid
    samples = []
    for sname, sm in sorted(agg["samples"].items()):
        for s in sm:
            samples.append({"space": sname, "case": s})
    cov = {
        "evaluations": agg["n"],
        "programs": agg["cases"],
        "distinct_nontrivial": len(agg["nt"]) if not check.state_based else max(len(agg["nt"]), len(agg["states"])),
        "rule": check.rule,
        "samples": samples[:40],
        "exhaustive": not capped,
        "spaces": space_info,
        "distinct_outcomes": len(agg["oc"]),
        "outcomes": dict(agg["oc"].most_common(60)),
        "tags": dict(sorted(agg["tags"].items())),
        "known_findings_reproduced": dict(hit),
        "jobs": NPROC,
    }
    for k, c in agg["extra"].items():
        cov[k] = dict(c.most_common(40))
    if check.state_based:
        cov["states"] = len(agg["states"])
        cov["transitions"] = agg["trans"]
        cov["traces_validated_against_impl"] = agg["trans"]
    if capped:
        cov["cap_note"] = "time cap hit: the run is NOT exhaustive; counts are what was completed"
    if note:
        cov["note"] = note
    ev = {
        "property_id": pid, "tier": tier, "seed": seed, "level": "model_checking",
        "coverage": cov, "assumptions": list(check.assumptions),
        "wall_s": round(time.time() - t0, 2), "violations": n_new,
    }
    edir = os.environ.get("FADLMC_EVIDENCE_DIR", os.path.join(VERIF, "evidence"))
    os.makedirs(edir, exist_ok=True)
    with open(os.path.join(edir, f"{pid}.json"), "w") as f:
        json.dump(ev, f, indent=1, default=repr)


def replay(path):
    with open(path) as f:
        rep = json.load(f)
    check = load_check(rep["property"])
    global _CHECK
    _CHECK = check
    payload = rep["payload"]
    if isinstance(payload, list):
        payload = _tuplify(payload)
    bind.reset_globals()
    if rep["space"] == "history-in-one-process":
        ok = _run_sequence(check, [tuple(c) for c in payload], rep["inner_key"])
        print(("REPRODUCED" if ok else "NOT REPRODUCED") + f" property={check.pid} history of {len(payload)} cases in one process")
        return 1 if ok else 0
    if rep["space"] == "histories-of-2":
        check._menu = check.pair_menu("thorough")
        r = _run_pair(payload)
    else:
        sp = [s for s in check.spaces("thorough") if s.name == rep["space"]]
        runner = sp[0].runner if sp else None
        r = getattr(check, runner)(payload) if runner else check.run(rep["space"], payload)
    for v in r.get("viol", ()):
        if vkey(check.pid, v["canon"], v["kind"]) == rep["key"]:
            print(f"REPRODUCED property={check.pid} kind={v['kind']} :: {v.get('msg','')}")
            return 1
    print("NOT REPRODUCED; result:", {k: r[k] for k in r if k in ("viol", "oc")})
    return 0


def _tuplify(x):
    if isinstance(x, list):
        return tuple(_tuplify(i) for i in x)
    return x
