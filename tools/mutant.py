"""Validate a seeded change and run checks against it (developer tool).

usage: mutant.py <worktree> <mutant dir> <seeded id> <property> <check ids,comma> [--tier quick]
Steps: sync worktree to /repo HEAD, apply patch, pytest (must pass), demo (must fail),
run the named checks with FADLMC_REPO=<worktree> (report rc), revert, demo (must pass).
Writes /verif/seeded/<id>/{patch.diff,demo.py,notes.md,meta.json}.
"""
import json, os, shutil, subprocess, sys, time

wt, mdir, sid, prop, checks = sys.argv[1:6]
tier = "quick"
if "--tier" in sys.argv:
    tier = sys.argv[sys.argv.index("--tier") + 1]
PY = "/venv/bin/python"
VSNAP = os.environ.get("MUTANT_VERIF", "/verif")  # a frozen copy of /verif while checks are being edited
def sh(cmd, **kw):
    return subprocess.run(cmd, shell=True, capture_output=True, text=True, **kw)
head = sh("git -C /repo rev-parse HEAD").stdout.strip()
sh(f"git -C {wt} checkout -q -- . ; git -C {wt} checkout -q --detach {head}")
patch = os.path.abspath(os.path.join(mdir, "patch.diff"))
r = sh(f"git -C {wt} apply {patch}")
meta = {"id": sid, "property": prop, "base_commit": head, "applied": r.returncode == 0}
if r.returncode != 0:
    print("PATCH DOES NOT APPLY", r.stderr); sys.exit(3)
t = sh(f"cd {wt} && {PY} -m pytest -q -p no:cacheprovider -x 2>&1 | tail -1")
meta["pytest_with_change"] = t.stdout.strip()
d1 = sh(f"cd {wt} && {PY} {os.path.join(mdir,'demo.py')}")
meta["demo_with_change_rc"] = d1.returncode
res = {}
for c in checks.split(","):
    t0 = time.time()
    env = dict(os.environ, FADLMC_REPO=wt, FADLMC_EVIDENCE_DIR="/tmp/fadlmc_mut_ev", FADLMC_REPLAY_DIR="/tmp/fadlmc_mut_rp")
    rr = subprocess.run(f"cd {VSNAP} && {PY} -m fadlmc check {c} --tier {tier}", shell=True, capture_output=True, text=True, env=env)
    lines = [l for l in rr.stdout.splitlines() if l.startswith("VIOLATION") or l.startswith("   kind")]
    res[c] = {"rc": rr.returncode, "first": lines[:2], "wall_s": round(time.time() - t0, 1), "stderr": rr.stderr[-300:] if rr.returncode not in (0, 1) else ""}
meta["checks"] = res
sh(f"git -C {wt} checkout -q -- .")
d0 = sh(f"cd {wt} && {PY} {os.path.join(mdir,'demo.py')}")
meta["demo_without_change_rc"] = d0.returncode
meta["valid"] = ("412 passed" in meta["pytest_with_change"]) and d1.returncode == 1 and d0.returncode == 0
meta["detected_by"] = [c for c, v in res.items() if v["rc"] == 1]
notes = os.path.join(mdir, "notes.md")
meta["needs"] = open(notes).read() if os.path.exists(notes) else ""
out = f"/verif/seeded/{sid}"
os.makedirs(out, exist_ok=True)
for f in ("patch.diff", "demo.py", "notes.md"):
    if os.path.exists(os.path.join(mdir, f)):
        shutil.copy(os.path.join(mdir, f), out)
meta["ran"] = f"pytest in worktree with patch; demo with/without; fadlmc checks {checks} tier {tier} with FADLMC_REPO=worktree"
json.dump(meta, open(os.path.join(out, "meta.json"), "w"), indent=1)
print(json.dumps({k: meta[k] for k in ("id", "valid", "pytest_with_change", "demo_with_change_rc", "demo_without_change_rc", "detected_by", "checks")}, indent=1))
