"""Regenerate the machine-made appendices of DESIGN.md (fixed defects, seeded changes) - run by hand."""
import glob
import json
import os
import re

V = "/verif"
kf = json.load(open(f"{V}/known_findings.json"))["findings"]
lines = ["<!-- BEGIN GENERATED APPENDIX (tools/gen_appendix.py) -->", "",
         "## Appendix C - genuine defects found by the checks on the pinned tree", "",
         "Each was first reported by the named check as a VIOLATION on the unchanged tree, reproduced with the real",
         "code, and repaired by one small unguarded `fix:` commit in /repo (the unedited 412-test suite passes after",
         "every one of them). `known_findings.json` lists them as `fixed`; a fixed entry suppresses nothing.", "",
         "| finding | property | /repo commit | what failed (minimal witness) |", "|---|---|---|---|"]
for f in kf:
    if f.get("status") == "fixed":
        lines.append(f"| {f['id']} | {f['property']} | `{f['commit']}` | {f['what']} - witness `{str(f.get('witness',''))[:110]}` |")
known = [f for f in kf if f.get("status") == "known"]
lines += ["", f"Defects recorded but not repaired (status `known`): {len(known)}." +
          ("" if known else " None: every defect the checks found so far had a small, safe repair."), ""]
for f in known:
    lines.append(f"* {f['id']} ({f['property']}): {f['what']}")
lines += ["", "## Appendix D - seeded property-breaking changes and the checks that catch them", "",
          "Written by fresh sub-agents that saw only the property text and a scratch worktree. Each kept change was",
          "re-validated by `tools/mutant.py`: it applies to /repo's HEAD, the 412 tests pass with it, its demonstration",
          "fails with it and passes without it. `detected by` = checks (quick tier) that exit 1 with a VIOLATION line",
          "when run with FADLMC_REPO pointing at the changed tree.", "",
          "| seeded id | property | what it needs to manifest (from the author's notes) | detected by |", "|---|---|---|---|"]
for d in sorted(glob.glob(f"{V}/seeded/*/meta.json")):
    m = json.load(open(d))
    notes = m.get("needs", "")
    mm = re.search(r"(?i)(needs?|trigger|what it needs)[^\n]*:?\s*(.*)", notes)
    need = (mm.group(0) if mm else notes.strip().split("\n")[0])[:230].replace("|", "/").replace("\n", " ")
    lines.append(f"| {m['id']} | {m['property']} | {need} | {', '.join(m.get('detected_by', [])) or 'NOT DETECTED'} |")
lines += ["", "## Appendix F - what the committed evidence files say (quick tier, unloaded 16-core run)", "",
          "| property | spaces (members each) | cases | executions on the real code | distinct non-trivial | states / transitions | wall s |",
          "|---|---|---|---|---|---|---|"]
for pid in [f"C{i:02d}" for i in range(1, 21)]:
    ef = f"{V}/evidence/{pid}.json"
    if not os.path.exists(ef):
        continue
    e = json.load(open(ef))
    c = e["coverage"]
    sp = "; ".join(f"{k} ({v['cases']})" for k, v in c.get("spaces", {}).items())
    st = f"{c.get('states', '-')} / {c.get('transitions', '-')}" if "states" in c else "-"
    lines.append(f"| {pid} | {sp[:420]} | {c.get('programs')} | {c.get('evaluations')} | {c.get('distinct_nontrivial')} | {st} | {e['wall_s']} |")
lines += ["", "<!-- END GENERATED APPENDIX -->"]
p = f"{V}/DESIGN.md"
s = open(p).read()
block = "\n".join(lines)
if "<!-- BEGIN GENERATED APPENDIX" in s:
    s = re.sub(r"<!-- BEGIN GENERATED APPENDIX.*<!-- END GENERATED APPENDIX -->", lambda _: block, s, flags=re.S)
else:
    s = s.rstrip() + "\n\n" + block + "\n"
open(p, "w").write(s)
print("appendix written:", sum(1 for f in kf if f.get("status") == "fixed"), "fixed;", len(glob.glob(f"{V}/seeded/*/meta.json")), "seeded")
