"""Regenerate MANIFEST.json from the check modules that exist (run by hand, committed)."""
import json
import os
import sys

sys.path.insert(0, "/verif")
from fadlmc import core  # noqa

ALL = [f"C{i:02d}" for i in range(1, 21)]
PY = "/venv/bin/python"
NOT_BUILT = {}
if os.path.exists("/verif/tools/not_applicable.json"):
    NOT_BUILT = json.load(open("/verif/tools/not_applicable.json"))

checks = []
na = []
served = []
for pid in ALL:
    if not os.path.exists(f"/verif/fadlmc/checks/{pid.lower()}.py") or pid in NOT_BUILT:
        na.append({"property_id": pid, "reason": NOT_BUILT.get(pid, "check not built yet (work in progress; see DESIGN.md section 4 for the planned bounded-exhaustive exploration)")})
        continue
    c = core.load_check(pid)
    served.append(pid)
    checks.append({
        "property_id": pid,
        "quick_cmd": f"cd /verif && {PY} -m fadlmc check {pid} --tier quick",
        "thorough_cmd": f"cd /verif && {PY} -m fadlmc check {pid} --tier thorough",
        "evidence_file": f"/verif/evidence/{pid}.json",
        "replay_cmd_template": f"cd /verif && {PY} -m fadlmc replay {{path}}",
        "engine": "fadlmc",
        "level_claimed": {
            "category": "model_checking",
            "text": getattr(c, "level_text", "") or c.rule,
            "design_ref": f"DESIGN.md section 4, {pid}",
        },
        "level_note": getattr(c, "level_note", "") or "; ".join(c.assumptions),
        "technique": getattr(c, "technique", "bounded-exhaustive enumeration of programs/inputs, each run on the real code against a reference model"),
    })

m = {
    "version": 1,
    "setup_cmd": f"cd /verif && {PY} -c \"import fadlmc.bind as b; b.bind(); print('fadlmc bound to', b.REPO)\"",
    "hooks": {
        "guard": "IRIS_HEP_FUNC_ADL_VERIF",
        "enable": "no hooks are needed: every observation point is public API; checks import func_adl from /repo's working tree (FADLMC_REPO overrides the path)",
        "baseline_off_cmd": "cd /repo && /venv/bin/python -m pytest -ra -q -p no:cacheprovider --timeout=900 --continue-on-collection-errors",
        "source_commits": [],
        "add_only": True,
    },
    "engines": [{
        "name": "fadlmc", "path": "/verif/fadlmc", "serves_properties": served,
        "kind_free_text": "hand-written explicit-state / bounded-exhaustive explorer for Python: typed term enumerator with binder-naming schemes, operation-history BFS with heap-graph state keys, coroutine schedule enumerator, source-layout enumerator; every explored member is executed on the real func_adl and judged by a small reference model (CPython evaluation, inspect.Signature.bind, ast.literal_eval, dict/list models)",
    }],
    "checks": checks,
    "notes": "All checks: exit 0 = held (KNOWN-FINDING lines announce listed defects), 1 = VIOLATION not listed in known_findings.json, 2 = harness error. VERIF_SEED only permutes the order of work. See DESIGN.md.",
    "not_applicable": na,
}
json.dump(m, open("/verif/MANIFEST.json", "w"), indent=1)
print("claimed", served, "not claimed", [x["property_id"] for x in na])
