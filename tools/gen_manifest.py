"""Regenerate MANIFEST.json from the check modules that exist (run by hand, committed)."""
import json
import os
import sys

sys.path.insert(0, "/verif")
from fadlmc import core  # noqa

ALL = [f"C{i:02d}" for i in range(1, 21)]
PY = "/venv/bin/python"
NOT_BUILT = {}
if os.path.exists("/verif/tools/not_applicable.json"):
    NOT_BUILT = json.load(open("/verif/tools/not_applicable.json"))

TECH = {
    "C01": "bounded-exhaustive enumeration of fluent chains x supply modes x datasets on the real API; differential oracle against CPython running the same chain; all 6 orders of the backend passes",
    "C02": "bounded-exhaustive enumeration of typed query terms under every binder-naming scheme, each simplified by the real code and evaluated by CPython on every dataset of a shape family",
    "C03": "exhaustive enumeration of source layouts (slot grammar) executed through a recording subclass; behavioural identity on a symbolic recorder",
    "C04": "exhaustive capture-source x lambda-shape x value enumeration plus explicit-state BFS over derive/rebind/delete/execute histories",
    "C05": "exhaustive helper-body x definition-form x call-site enumeration; differential evaluation against Python calling the helper",
    "C06": "exhaustive comprehension / constructor-call-shape enumeration; differential evaluation and inspect.signature.bind oracle",
    "C07": "exhaustive signature x call-shape x site enumeration; inspect.Signature.bind(...).apply_defaults() oracle",
    "C08": "exhaustive typed-expression enumeration over six class models; the generator's by-construction type is the oracle",
    "C09": "exhaustive callback-placement x behaviour x call-site enumeration; reference walk of the user's lambda as oracle",
    "C10": "production-pair-complete enumeration of untyped expressions (depth 2 complete, depth 3 with representatives) x operator x supply mode; histories-of-2 for cross-query state",
    "C11": "explicit-state model checking of the implementation: BFS over operation histories on fresh real objects, heap-graph state hashing, invariant on every live stream after every transition",
    "C12": "explicit-state BFS over build/execute histories with an executor-log reference model, plus exhaustive enumeration of all start/complete interleavings of concurrent value_async calls",
    "C13": "exhaustive strings over a 14-character alphabet and nested literal values through every embedding entry point; ast.literal_eval oracle; histories-of-2",
    "C14": "exhaustive packaging-chain enumeration under every binder naming; inductive result-position shape oracle",
    "C15": "exhaustive placement of up to K MetaData wrappers on every node of every skeleton; reference strip/keep functions and heap-graph non-mutation check",
    "C16": "explicit-state BFS over QMetaData/derive/execute histories; per-stream dict reference model and QMetaData-free twin chain",
    "C17": "bounded-exhaustive enumeration of queries with every operator independently in method or function form plus decoys; independent reference rewrite, fixpoint and CPython evaluation",
    "C18": "bounded-exhaustive enumeration of C02's spaces plus odd literal projections; totality / well-formedness oracle (unparse + compile without repair)",
    "C19": "bounded-exhaustive expression enumeration x ALL integer sequences of length <= 4 over {-2..2}; Python len/sum/max/min oracle and behavioural fold classification",
    "C20": "exhaustive single-edit neighbourhoods and re-spellings of every enumerated query; grouping by hash vs independent structural key; separate processes with different PYTHONHASHSEED",
}
checks = []
na = []
served = []
for pid in ALL:
    if not os.path.exists(f"/verif/fadlmc/checks/{pid.lower()}.py") or pid in NOT_BUILT:
        na.append({"property_id": pid, "reason": NOT_BUILT.get(pid, "check not built yet (work in progress; see DESIGN.md section 4 for the planned bounded-exhaustive exploration)")})
        continue
    c = core.load_check(pid)
    served.append(pid)
    checks.append({
        "property_id": pid,
        "quick_cmd": f"cd /verif && {PY} -m fadlmc check {pid} --tier quick",
        "thorough_cmd": f"cd /verif && {PY} -m fadlmc check {pid} --tier thorough",
        "evidence_file": f"/verif/evidence/{pid}.json",
        "replay_cmd_template": f"cd /verif && {PY} -m fadlmc replay {{path}}",
        "engine": "fadlmc",
        "level_claimed": {
            "category": "model_checking",
            "text": ("Bounded-exhaustive exploration that runs the REAL func_adl on every member of the stated spaces and "
                     "judges each by an independent reference model; the result is a coverage statement (every member "
                     "up to the bound), not a sample and not a proof, which is the right level for a universally "
                     "quantified property of a deterministic sequential library. Spaces: " + c.rule),
            "design_ref": f"DESIGN.md section 4, {pid}",
        },
        "level_note": getattr(c, "level_note", "") or "; ".join(c.assumptions),
        "technique": TECH[pid],
    })

m = {
    "version": 1,
    "setup_cmd": f"cd /verif && {PY} -c \"import fadlmc.bind as b; b.bind(); print('fadlmc bound to', b.REPO)\"",
    "hooks": {
        "guard": "IRIS_HEP_FUNC_ADL_VERIF",
        "enable": "no hooks are needed: every observation point is public API; checks import func_adl from /repo's working tree (FADLMC_REPO overrides the path)",
        "baseline_off_cmd": "cd /repo && /venv/bin/python -m pytest -ra -q -p no:cacheprovider --timeout=900 --continue-on-collection-errors",
        "source_commits": [],
        "add_only": True,
    },
    "engines": [{
        "name": "fadlmc", "path": "/verif/fadlmc", "serves_properties": served,
        "kind_free_text": "hand-written explicit-state / bounded-exhaustive explorer for Python: typed term enumerator with binder-naming schemes, operation-history BFS with heap-graph state keys, coroutine schedule enumerator, source-layout enumerator; every explored member is executed on the real func_adl and judged by a small reference model (CPython evaluation, inspect.Signature.bind, ast.literal_eval, dict/list models)",
    }],
    "checks": checks,
    "notes": "All checks: exit 0 = held (KNOWN-FINDING lines announce listed defects), 1 = VIOLATION not listed in known_findings.json, 2 = harness error. VERIF_SEED only permutes the order of work. See DESIGN.md.",
    "not_applicable": na,
}
json.dump(m, open("/verif/MANIFEST.json", "w"), indent=1)
print("claimed", served, "not claimed", [x["property_id"] for x in na])
