#!/bin/bash
here=$(cd "$(dirname "$0")/.." && pwd)
dir=${1:-_refactors}
for g in A C D B; do for i in 1 2 3; do
  p=/tmp/wt-R$g/$dir/r$i/patch.diff
  [ -f $p ] && { echo "##### R$g r$i"; bash $here/tools/refactor_check.sh /tmp/wt-R$g $p; }
done; done
