#!/bin/bash
for g in A C D B; do for i in 1 2 3; do
  p=/tmp/wt-R$g/_refactors/r$i/patch.diff
  [ -f $p ] && { echo "##### R$g r$i"; bash /verif/tools/refactor_check.sh /tmp/wt-R$g $p; }
done; done
