#!/bin/bash
# second pass of refactoring round 3 with the checks as they are NOW: every applying patch against the 16 lighter checks,
# the simplifier / util_ast patches also against the 4 heaviest ones
here=$(cd "$(dirname "$0")/.." && pwd)
export FADLMC_CHECKS="C01 C03 C04 C05 C06 C07 C08 C09 C12 C13 C15 C16 C17 C18 C19 C20"
for x in RA/r1 RA/r2 RA/r3 RC/r1 RC/r3 RD/r1 RD/r2 RD/r3 RB/r2; do
  echo "##### light $x"; bash $here/tools/refactor_check.sh /tmp/wt-${x%/*} /tmp/wt-${x%/*}/_refactors/${x#*/}/patch.diff
done
export FADLMC_CHECKS="C02 C14 C10 C11"
for x in RA/r1 RA/r2 RB/r2 RD/r3; do
  echo "##### heavy $x"; bash $here/tools/refactor_check.sh /tmp/wt-${x%/*} /tmp/wt-${x%/*}/_refactors/${x#*/}/patch.diff
done
