#!/bin/bash
# developer helper: apply a (supposedly behaviour-preserving) patch in a worktree and run every quick check on it
wt=$1; patch=$2
here=$(cd "$(dirname "$0")/.." && pwd)
head=$(git -C /repo rev-parse HEAD)
git -C $wt checkout -q -- . ; git -C $wt checkout -q --detach $head
git -C $wt apply $patch || { echo "PATCH DOES NOT APPLY"; exit 3; }
(cd $wt && /venv/bin/python -m pytest -q -p no:cacheprovider 2>&1 | tail -1)
export FADLMC_REPO=$wt FADLMC_EVIDENCE_DIR=/tmp/fadlmc_ref_ev FADLMC_REPLAY_DIR=/tmp/fadlmc_ref_rp
cd $here
for c in ${FADLMC_CHECKS:-C01 C02 C03 C04 C05 C06 C07 C08 C09 C10 C11 C12 C13 C14 C15 C16 C17 C18 C19 C20}; do
  out=$(/venv/bin/python -m fadlmc check $c --tier quick 2>&1); rc=$?
  if [ $rc -ne 0 ]; then echo "== $c rc=$rc"; echo "$out" | grep -E "VIOLATION|kind=|HARNESS" | head -4 | cut -c1-400; fi
done
echo "done $patch"
git -C $wt checkout -q -- .
