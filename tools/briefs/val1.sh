#!/bin/bash
# usage: val1.sh <prop> <round> <k> [checks]   -> validate one mutant against the WORKING COPY of /verif
p=$1; r=$2; k=$3; checks=${4:-$p}
cd /verif && /venv/bin/python tools/mutant.py /tmp/wt/val2 /tmp/mut/$p-$r/m$k $p-${r}m$k $p $checks 2>&1 | python3 -c "
import sys,json
t=sys.stdin.read()
try:
    m=json.loads(t); print(m['id'],'valid=',m['valid'],m['pytest_with_change'],'demo',m['demo_with_change_rc'],m['demo_without_change_rc'],'detected_by=',m['detected_by'],{c:(v['rc'],v['wall_s'],v['first'][1][:230] if len(v['first'])>1 else '') for c,v in m['checks'].items()})
except Exception as e: print('ERR',t[-800:])
"
