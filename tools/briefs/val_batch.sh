#!/bin/bash
# usage: val_batch.sh <prop> <round> [extra checks comma]  -> validates /tmp/mut/<prop>-<round>/m*
p=$1; r=$2; extra=$3
for d in /tmp/mut/$p-$r/m*; do
  k=$(basename $d)
  [ -f $d/patch.diff ] || { echo "$p-$r$k: no patch"; continue; }
  cd /verif && MUTANT_VERIF=/root/verif_snap /venv/bin/python tools/mutant.py /tmp/wt/val $d $p-$r$k $p $p${extra:+,$extra} 2>&1 | python3 -c "
import sys,json
t=sys.stdin.read()
try:
    m=json.loads(t); print(m['id'],'valid=',m['valid'],m['pytest_with_change'],'demo',m['demo_with_change_rc'],m['demo_without_change_rc'],'detected_by=',m['detected_by'],{c:(v['rc'],v['wall_s']) for c,v in m['checks'].items()})
except Exception as e: print('ERR',t[-500:])
"
done
