"""helper: add an entry to known_findings.json (run by hand)"""
import json, sys
p = "/verif/known_findings.json"
d = json.load(open(p))
e = json.loads(sys.stdin.read())
d["findings"] = [f for f in d["findings"] if f["id"] != e["id"]] + [e]
json.dump(d, open(p, "w"), indent=1)
print("findings:", [f["id"] for f in d["findings"]])
