#!/bin/bash
# developer helper: run every check of a tier, one after the other, print one line each
tier=${1:-quick}; shift
ids=${@:-C01 C02 C03 C04 C05 C06 C07 C08 C09 C10 C11 C12 C13 C14 C15 C16 C17 C18 C19 C20}
for c in $ids; do
  s=$(date +%s)
  out=$(/venv/bin/python -m fadlmc check $c --tier $tier 2>&1 | tail -4)
  echo "== $c rc=$? $(( $(date +%s) - s ))s"; echo "$out" | cut -c1-400
done
